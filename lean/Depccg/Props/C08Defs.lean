/-
  C08  AUTO text written by depccg reads back to the same tree.   Statements.
-/
import Depccg.Props.TextDefs

namespace Depccg.C08
open Depccg Str Print Read TextProps

/-- reading a printed AUTO line yields the tree with the same categories, shape, head flags,
    part-of-speech tags and words in their escaped spelling (`autoImage`), and the reader's token
    list is the token list of that tree -/
def AutoRoundtripStatement : Prop :=
  ∀ (lang : Lang) (t : Tree) (s : Str),
    AllCats CatOK t → AllCats (OneSystem lang) t → AllToks TokOK t →
    autoOf t = .ok s →
    ∃ t', autoImage lang t = .ok t' ∧ readAutoLine lang s = .ok (t', t'.tokens)

/-- printing the tree that was read reproduces the line exactly -/
def AutoReprintStatement : Prop :=
  ∀ (lang : Lang) (t t' : Tree) (s : Str),
    AllToks TokOK t → autoOf t = .ok s → autoImage lang t = .ok t' → autoOf t' = .ok s

/-- `autoImage` keeps categories, shape and head flags -/
def skel : Tree → Tree
  | .leaf c _ _ _ => .leaf c [] [] []
  | .un c _ _ ch => .un c [] [] (skel ch)
  | .bin c _ _ h l r => .bin c [] [] h (skel l) (skel r)

def AutoImageSkelStatement : Prop :=
  ∀ (lang : Lang) (t t' : Tree), autoImage lang t = .ok t' → skel t' = skel t

/-- the per-word fragments in the last column of the conll format concatenate (with blanks) to
    the AUTO line, for tokens that carry a `pos` -/
def ConllFragmentsStatement : Prop :=
  ∀ (t : Tree) (s c : Str),
    AllToks TokOK t → AllToks (fun tok => ∃ p, Token.get? tok (lit "pos") = some p) t →
    AllCats CatOK t →
    autoOf t = .ok s → conllOf t = .ok c → joinSep cSpace (lastColumns c) = s

/-- printing never fails on trees whose tokens have a word -/
def AutoTotalStatement : Prop :=
  ∀ (t : Tree), AllToks TokOK t → (∃ s, autoOf t = .ok s) ∧ (∃ c, conllOf t = .ok c)

/-- every well-formed category (C05) is left alone by the CCGbank repair, so the second clause of
    `CatOK` follows from well-formedness -/
def FixCatIdStatement : Prop := ∀ c : Cat, C05.WF c → fixCat c.str = c.str

end Depccg.C08
