/-
  C10 (n-best): `NBestTopKStatement` of `SearchDefs.lean`.  In n-best mode the search enumerates
  derivations best first without ever creating one twice, so — unless the step budget ran out —
  the returned list holds the `nbest` best licensed complete parses, pairwise distinct, and all of
  them when there are fewer than `nbest`.  Proved from the invariant `NB` and the cover lemma
  `coverFin` of `Depccg/Proofs/NBestLemmas.lean`.
-/
import Depccg.Props.SearchBasics
import Depccg.Proofs.NBestLemmas

namespace Depccg.SearchProps
open Depccg Search

/-- the derivations returned are those of the goal list of the final state -/
theorem mem_results_d {pick : Pick} {g : Grammar} {s : Sent} {cfg : Cfg} {d : Deriv} :
    d ∈ (runWith pick g s cfg).results.map (·.d) ↔
      ∃ r ∈ (loop pick g s cfg cfg.maxStep (init pick s cfg)).goal, r.d = d := by
  show d ∈ (sortDesc _).map (·.d) ↔ _
  rw [List.mem_map]
  constructor
  · rintro ⟨r, hr, e⟩; exact ⟨r, (sortDesc_perm _).mem_iff.1 hr, e⟩
  · rintro ⟨r, hr, e⟩; exact ⟨r, (sortDesc_perm _).mem_iff.2 hr, e⟩

/-- (3) no derivation is returned twice -/
theorem nbest_nodup (pick : Pick) (g : Grammar) (s : Sent) (cfg : Cfg) (hp : PickOK pick)
    (hn : 1 < cfg.nbest) : ((runWith pick g s cfg).results.map (·.d)).Nodup := by
  have h := (NB.final hp g s cfg hn).goalD
  show ((sortDesc _).map (·.d)).Nodup
  refine (((sortDesc_perm _).map _).nodup_iff).2 ?_
  exact List.pairwise_map.2 h

/-- (1) a licensed complete parse that is not returned scores no more than any returned one
    (whether or not the step budget ran out) -/
theorem nbest_unreturned_not_better (pick : Pick) (g : Grammar) (s : Sent) (cfg : Cfg)
    (hp : PickOK pick) (hs : SentOK s) (hpen : 0 ≤ cfg.penalty) (hn : 1 < cfg.nbest)
    (d : Deriv) (hd : LicensedRoot g s cfg d) (hnot : d ∉ (runWith pick g s cfg).results.map (·.d))
    (r : Item) (hr : r ∈ (runWith pick g s cfg).results) : modelScore s cfg d ≤ r.prio := by
  have hok := StOK.final hp g s cfg
  have hnb := NB.final hp g s cfg hn
  have hprio := PrioOK.final (g := g) (cfg := cfg) hp hs hpen
  rcases coverFin hs hpen hok hnb hd with hgoal | ⟨a, ha, hle⟩
  · exact absurd (mem_results_d.2 hgoal) hnot
  · exact Int.le_trans hle (hprio.bound a ha r (hok.goal_sub r (mem_results hr)))

/-- when the budget did not run out and the goal list is not full, the agenda is empty -/
theorem agenda_empty_of_short {pick : Pick} {g : Grammar} {s : Sent} {cfg : Cfg} (hp : PickOK pick)
    (hsteps : (runWith pick g s cfg).steps < cfg.maxStep)
    (hshort : (loop pick g s cfg cfg.maxStep (init pick s cfg)).goal.length < cfg.nbest) :
    (loop pick g s cfg cfg.maxStep (init pick s cfg)).agenda = [] := by
  have hsteps' : (loop pick g s cfg cfg.maxStep (init pick s cfg)).steps < cfg.maxStep := hsteps
  rcases loop_stuck_or_fuel (pick := pick) (g := g) (s := s) (cfg := cfg) cfg.maxStep (init pick s cfg)
    with hstuck | hfuel
  · rcases stepWith_none_iff.1 hstuck with hfull | hnone
    · omega
    · apply Classical.byContradiction
      intro hne
      obtain ⟨it, rest, e, _⟩ := hp.2.1 _ hne
      rw [e] at hnone
      cases hnone
  · have h0 : (init pick s cfg).steps = 0 := rfl
    omega

/-- (2) fewer than `nbest` results: every licensed complete parse was returned -/
theorem nbest_complete_when_short (pick : Pick) (g : Grammar) (s : Sent) (cfg : Cfg)
    (hp : PickOK pick) (hs : SentOK s) (hpen : 0 ≤ cfg.penalty) (hn : 1 < cfg.nbest)
    (hsteps : (runWith pick g s cfg).steps < cfg.maxStep)
    (hshort : (runWith pick g s cfg).results.length < cfg.nbest)
    (d : Deriv) (hd : LicensedRoot g s cfg d) : d ∈ (runWith pick g s cfg).results.map (·.d) := by
  have hok := StOK.final hp g s cfg
  have hnb := NB.final hp g s cfg hn
  have hshort' : (loop pick g s cfg cfg.maxStep (init pick s cfg)).goal.length < cfg.nbest := by
    have : (sortDesc (loop pick g s cfg cfg.maxStep (init pick s cfg)).goal).length < cfg.nbest := hshort
    rwa [(sortDesc_perm _).length_eq] at this
  have hempty := agenda_empty_of_short hp hsteps hshort'
  rcases coverFin hs hpen hok hnb hd with hgoal | ⟨a, ha, _⟩
  · exact mem_results_d.2 hgoal
  · rw [hempty] at ha; cases ha

/-! ### C10 (n-best) -/

theorem nbest_topk : NBestTopKStatement := by
  intro pick g s cfg hp hs hpen hn hsteps
  exact ⟨fun d hd hnot r hr => nbest_unreturned_not_better pick g s cfg hp hs hpen hn d hd hnot r hr,
    fun hshort d hd => nbest_complete_when_short pick g s cfg hp hs hpen hn hsteps hshort d hd,
    nbest_nodup pick g s cfg hp hn⟩

/-! ### a concrete instance: the two parses of the demo sentence -/

namespace Demo

/-- the hypotheses hold for the demo run (`nbest = 2`, 8 steps of 100), so its two results are
    the two best licensed complete parses and they are different trees -/
example :
    let res := (runWith pickFirstMax g s cfg).results
    (∀ d, LicensedRoot g s cfg d → d ∉ res.map (·.d) → ∀ r ∈ res, modelScore s cfg d ≤ r.prio) ∧
    (res.length < cfg.nbest → ∀ d, LicensedRoot g s cfg d → d ∈ res.map (·.d)) ∧
    (res.map (·.d)).Nodup :=
  nbest_topk pickFirstMax g s cfg pickFirstMax_ok sentOK (by decide) (by decide) (by decide)

/-- asking for three parses returns only two (10 steps, the agenda runs empty) … -/
example : (run g s { cfg with nbest := 3 }).results.map (·.d) =
    [.bin 2 0 false (.un 0 0 (.leaf 0 3)) (.leaf 1 1), .bin 2 0 false (.leaf 0 0) (.leaf 1 1)] := by
  decide

/-- … hence the sentence has exactly these two licensed complete parses -/
example (d : Deriv) (hd : LicensedRoot g s { cfg with nbest := 3 } d) :
    d = .bin 2 0 false (.un 0 0 (.leaf 0 3)) (.leaf 1 1) ∨ d = .bin 2 0 false (.leaf 0 0) (.leaf 1 1) := by
  have h := (nbest_topk pickFirstMax g s { cfg with nbest := 3 } pickFirstMax_ok sentOK
    (by decide) (by decide) (by decide)).2.1 (by decide) d hd
  have e : (runWith pickFirstMax g s { cfg with nbest := 3 }).results.map (·.d) =
      [.bin 2 0 false (.un 0 0 (.leaf 0 3)) (.leaf 1 1), .bin 2 0 false (.leaf 0 0) (.leaf 1 1)] := by
    decide
  rw [e] at h
  simpa using h

end Demo

end Depccg.SearchProps
