/-
  C19  Whatever the parser can return can be rendered in every offered format.
  Property theorems only; the statements are in Depccg/Props/C19Defs.lean, helper lemmas in
  Depccg/Proofs/C19Lemmas.lean.
-/
import Depccg.Props.C19Defs
import Depccg.Proofs.C19Lemmas
import Depccg.Generated.Labels

namespace Depccg.C19
open Depccg Str Print TextProps

/-- the line / document formats never fail on trees whose tokens have a word -/
theorem text_render_total : TextRenderTotalStatement := fun t h =>
  ⟨autoOf_total t h, autoExtOf_total t h, conllOf_total t h, ptbOf_total t h, jaOf_total t h, derivOf_total t h⟩

/-- Jigg XML never fails on non-empty n-best lists -/
theorem jigg_render_total : JiggRenderTotalStatement := fun useSymbol batch h =>
  jiggOfAux_total useSymbol batch 0 h

/-- the English Prolog printer never fails on trees with known labels -/
theorem prolog_en_total : PrologEnTotalStatement := by
  intro batch h
  have hall : ∀ p ∈ numbered batch, ∃ s,
      (fun (p : Nat × Tree) => (prologEnOne p.2 p.1).map (· ++ [10])) p = .ok s := by
    intro p hp
    obtain ⟨trees, htb, hpt⟩ := mem_numbered hp
    obtain ⟨hw, ho⟩ := h trees htb p.2 hpt
    obtain ⟨s, hs⟩ := prologEnRec_total p.2 hw ho 1
    have h1 : prologEnOne p.2 p.1 = .ok (lit "ccg(" ++ Str.ofNat p.1 ++ lit ",\n" ++ s ++ lit ").\n") := by
      simp only [prologEnOne, hs]
    exact ⟨_, map_ok _ h1⟩
  obtain ⟨body, hb⟩ := catExcept_total _ _ hall
  simp only [prologEn, hb]
  exact ⟨_, rfl⟩

/-- the Japanese Prolog printer never fails on trees with known symbols -/
theorem prolog_ja_total : PrologJaTotalStatement := by
  intro batch h
  have hall : ∀ p ∈ numbered batch, ∃ s,
      (fun (p : Nat × Tree) =>
        (prologJaRec p.2 1).map fun s => lit "ccg(" ++ Str.ofNat p.1 ++ lit "," ++ s ++ lit ").\n\n") p = .ok s := by
    intro p hp
    obtain ⟨trees, htb, hpt⟩ := mem_numbered hp
    obtain ⟨hw, ho⟩ := h trees htb p.2 hpt
    obtain ⟨s, hs⟩ := prologJaRec_total p.2 hw ho 1
    exact ⟨_, map_ok _ hs⟩
  obtain ⟨body, hb⟩ := catExcept_total _ _ hall
  simp only [prologJa, hb]
  exact ⟨_, rfl⟩

/-- a batch renders as soon as each of its trees does -/
theorem batch_total : BatchTotalStatement := by
  intro fmt conll batch h
  apply catExcept_total
  intro p hp
  obtain ⟨trees, htb, hpt⟩ := mem_numbered hp
  obtain ⟨s, hs⟩ := h trees htb p.2 hpt
  exact ⟨_, map_ok _ hs⟩

/-- the failure placeholder satisfies the hypotheses of every theorem above -/
theorem placeholder_renders : PlaceholderRendersStatement := ⟨⟨_, rfl⟩, trivial, trivial⟩

/-- the labels of English binary results are known to the English Prolog printer -/
theorem en_labels_ok : EnLabelsOKStatement := by
  unfold EnLabelsOKStatement; decide

/-- the symbols of Japanese results are known to the Japanese Prolog printer -/
theorem ja_symbols_ok : JaSymbolsOKStatement := by
  unfold JaSymbolsOKStatement; decide

/-! ### the placeholder, rendered -/

section examples

example : autoOf placeholder = .ok (lit "(<L NP POS POS FAILED NP>)") := by decide
example : autoExtOf placeholder = .ok (lit "(<L NP FAILED XX XX XX XX NP>)") := by decide
example : conllOf placeholder = .ok (lit "1\tFAILED\t_\t_\t_\t_\t0\tNP\t_\t(<L NP _ _ FAILED NP>)") := by
  decide +kernel
example : ptbOf placeholder = .ok (lit "(ROOT (NP FAILED))") := by decide
example : jaOf placeholder = .ok (lit "{NP FAILED/FAILED/_/_}") := by decide
example : derivOf placeholder = .ok (lit "   NP\n FAILED\n") := by decide +kernel

example : prologEn [[placeholder]] = .ok (lit
    (":- op(601, xfx, (/)).\n:- op(601, xfx, (\\)).\n:- multifile ccg/2, id/2.\n:- discontiguous ccg/2, id/2.\n\n" ++
     "ccg(1,\n t(np, 'FAILED', 'XX', 'XX', 'XX', 'XX')).\n\n")) := by decide +kernel

example : prologJa [[placeholder]] = .ok (lit
    (":- op(601, xfx, (/)).\n:- op(601, xfx, (\\)).\n:- multifile ccg/2, id/2.\n:- discontiguous ccg/2, id/2.\n\n" ++
     "ccg(1,\n t(np, 'FAILED', '*', '*', '*', '*')).\n\n")) := by decide +kernel

/-- … and by the theorems -/
example : ∃ s, derivOf placeholder = .ok s := (text_render_total placeholder placeholder_renders.1).2.2.2.2.2
example : ∃ ss, Xml.jiggOf true [[placeholder]] = .ok ss :=
  jigg_render_total true [[placeholder]] (by decide)

private def cNP : Cat := .atom (lit "NP") (.un none)
private def cS : Cat := .atom (lit "S") (.un (some (lit "dcl")))
private def cVP : Cat := .fn cS cBSlash cNP

/-- what the parser builds from `NP` "it" and `S[dcl]\NP` "runs": the English grammar's result -/
private def exTree : Tree :=
  .bin cS (lit "ba") (lit "<") true
    (.leaf cNP (Token.ofWord (lit "it")) (lit "lex") (lit "<lex>"))
    (.leaf cVP (Token.ofWord (lit "runs")) (lit "lex") (lit "<lex>"))

example : En.applyBinary none cNP cVP = .ok [⟨cS, lit "ba", lit "<", true⟩] := by decide +kernel

private theorem exOK : AllToks HasWord exTree ∧ EnPrologOK exTree :=
  ⟨⟨⟨_, rfl⟩, ⟨_, rfl⟩⟩, by decide, by decide, trivial, trivial⟩

/-- a batch of one parsed sentence and one failed sentence: one Prolog document, by the theorem … -/
example : ∃ s, prologEn [[exTree], [placeholder]] = .ok s := by
  apply prolog_en_total
  intro trees ht t htt
  simp only [List.mem_cons, List.not_mem_nil, or_false] at ht
  rcases ht with rfl | rfl
  · simp only [List.mem_cons, List.not_mem_nil, or_false] at htt; subst htt; exact exOK
  · simp only [List.mem_cons, List.not_mem_nil, or_false] at htt; subst htt
    exact ⟨placeholder_renders.1, placeholder_renders.2.1⟩

/-- … and evaluated -/
example : prologEn [[exTree], [placeholder]] = .ok (lit
    (":- op(601, xfx, (/)).\n:- op(601, xfx, (\\)).\n:- multifile ccg/2, id/2.\n:- discontiguous ccg/2, id/2.\n\n" ++
     "ccg(1,\n ba(s:dcl,\n  t(np, 'it', 'XX', 'XX', 'XX', 'XX'),\n  t((s:dcl\\np), 'runs', 'XX', 'XX', 'XX', 'XX'))).\n\n" ++
     "ccg(2,\n t(np, 'FAILED', 'XX', 'XX', 'XX', 'XX')).\n\n")) := by decide +kernel

/-- the record-by-record formats on the same batch, by the theorem and evaluated -/
example : ∃ s, toStringLines autoOf false [[(exTree, lit "-0.5")], [(placeholder, lit "0.0")]] = .ok s := by
  apply batch_total
  intro trees ht p hp
  simp only [List.mem_cons, List.not_mem_nil, or_false] at ht
  rcases ht with rfl | rfl <;>
    (simp only [List.mem_cons, List.not_mem_nil, or_false] at hp; subst hp)
  · exact (text_render_total exTree exOK.1).1
  · exact (text_render_total placeholder placeholder_renders.1).1

example : toStringLines autoOf false [[(exTree, lit "-0.5")], [(placeholder, lit "0.0")]] = .ok (lit
    ("ID=1, log probability=-0.5\n(<T S[dcl] 0 2> (<L NP XX XX it NP>) (<L S[dcl]\\NP XX XX runs S[dcl]\\NP>) )\n" ++
     "ID=2, log probability=0.0\n(<L NP POS POS FAILED NP>)\n")) := by decide +kernel

/-! the hypotheses are needed -/

/-- a token without a word fails in every line format -/
example : autoOf (.leaf cNP [] (lit "lex") (lit "<lex>")) = .error .keyError := by decide

/-- Jigg XML fails on an empty n-best list -/
example : Xml.jiggOf false [[]] = .error .indexError := rfl

/-- an unknown label fails in the English Prolog printer, and `conj` needs a functor category -/
example : prologEnRec (.bin cNP (lit "unk") (lit "<unk>") true placeholder placeholder) 1 = .error .keyError := by
  decide +kernel
example : prologEnRec (.bin cNP (lit "conj") (lit "<Φ>") true placeholder placeholder) 1 = .error .attributeError := by
  decide +kernel

end examples

end Depccg.C19
