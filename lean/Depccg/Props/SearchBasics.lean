/-
  The basic search properties (C02 C09 C10 C01-observable C16): every statement of
  `SearchDefs.lean` that does not need the optimality argument, proved from the invariants of
  `Depccg/Proofs/SearchLemmas.lean`, plus a concrete instance showing the hypotheses are satisfiable.
-/
import Depccg.Props.SearchDefs
import Depccg.Proofs.SearchLemmas

namespace Depccg.SearchProps
open Depccg Search

/-- the simplest agenda (`pickFirstMax`) is admissible -/
theorem pickFirstMax_ok : PickOK Search.pickFirstMax := pickFirstMax_PickOK

/-- the results are the goal items of the final state -/
theorem mem_results {pick : Pick} {g : Grammar} {s : Sent} {cfg : Cfg} {r : Item}
    (h : r ∈ (runWith pick g s cfg).results) :
    r ∈ (loop pick g s cfg cfg.maxStep (init pick s cfg)).goal :=
  (sortDesc_perm _).mem_iff.1 h

theorem results_finOK {pick : Pick} {g : Grammar} {s : Sent} {cfg : Cfg} (hp : PickOK pick) {r : Item}
    (h : r ∈ (runWith pick g s cfg).results) : r.fin = true ∧ FinOK g s cfg r :=
  (StOK.final hp g s cfg).goal r (mem_results h)

/-! ### C02 -/

theorem returned_valid : ReturnedValidStatement := by
  intro pick g s cfg hp r hr
  obtain ⟨hf, hok⟩ := results_finOK hp hr
  refine ⟨hok.lic, ?_, hok.cat, hf⟩
  obtain ⟨hl, h0, hn, _⟩ := hok.lic
  rw [hl.leafToks_eq, h0, hn, List.range_eq_range']

theorem leaf_tags_admitted : LeafTagsAdmittedStatement :=
  fun _ _ _ _ h => h.leafCats_admitted

theorem no_unary_at_root : NoUnaryAtRootStatement := by
  intro g s cfg d hd hn c rid d' e
  subst e
  obtain ⟨hl, _, hlen, _⟩ := hd
  cases hl with
  | un _ _ _ _ _ hu =>
    simp only [dlen] at hlen
    omega

/-! ### C09 -/

theorem score_accounting : ScoreAccountingStatement := by
  intro pick g s cfg hp r hr
  exact (results_finOK hp hr).2.prio_eq

/-! ### C10 -/

theorem results_sorted : ResultsSortedStatement := by
  intro pick g s cfg
  exact List.pairwise_map.2 (sortDesc_sorted _)

theorem results_count : ResultsCountStatement := by
  intro pick g s cfg hp
  show (sortDesc _).length ≤ cfg.nbest
  rw [(sortDesc_perm _).length_eq]
  exact (StOK.final hp g s cfg).goal_le

/-! ### C01 (observable half) -/

theorem inside_bounded : InsideBoundedStatement := by
  intro g s cfg d hs hp h
  exact inside_le hs hp h

theorem pops_nonincreasing : PopsNonincreasingStatement := by
  intro pick g s cfg hp hs hpen
  have h := (PrioOK.final (g := g) hp hs hpen).chain
  show ((List.reverse _).map Item.prio).Pairwise (· ≥ ·)
  rw [List.map_reverse, List.pairwise_reverse]
  exact h

/-! ### C16 -/

theorem admitted_prefix : AdmittedPrefixStatement :=
  fun s cfg tok => admitted_eq_take s cfg tok

theorem admitted_subset_topk : AdmittedSubsetTopKStatement := by
  intro s cfg tok c hc
  obtain ⟨k, hk, e⟩ := admitted_eq_take s cfg tok
  rw [e] at hc
  exact List.take_subset_take_left _ hk hc

theorem admitted_all_pass : AdmittedAllPassStatement := by
  intro s cfg tok i c hlen h
  exact admitLoop_all_pass (Nat.le_of_eq hlen.symm) h

theorem filter_off : FilterOffStatement := by
  intro s cfg tok h
  simp only [admitted, topK, h, admitLoop_nil_passes]

theorem admitted_stops_at_failure : AdmittedStopsAtFailureStatement :=
  fun _ _ _ _ h => admitLoop_stops h

theorem candidates_sorted : CandidatesSortedStatement := by
  intro s tok
  refine ⟨List.pairwise_map.2 (sortCands_sorted _), ?_⟩
  refine ((sortCands_perm _).map _).trans ?_
  rw [enumFrom_map_snd, List.range_eq_range']

/-! ### non-vacuity: a concrete instance -/

namespace Demo

/-- categories: 0 = NP, 1 = S\NP, 2 = S, 3 = N;  `N ⇒ NP` (unary), `NP S\NP ⇒ S` (head right) -/
def g : Grammar where
  bin := fun x y => if x = 0 ∧ y = 1 then [⟨2, false⟩] else []
  un := fun x => if x = 3 then [0] else []

def s : Sent where
  n := 2
  tags := [[1, -3, -5, 4], [-2, 6, -1, -4]]
  deps := [[-1, 0, 3], [5, 2, 0]]
  roots := [2]
  passes := [[], []]

def cfg : Cfg := { penalty := 1, pruning := 3, nbest := 2, maxStep := 100 }

theorem sentOK : SentOK s := by simp [SentOK, s]
example : 0 ≤ cfg.penalty := by decide
example : PickOK pickFirstMax := pickFirstMax_ok

/-- the run returns both parses, best first: `N ⇒ NP` on the first word beats the plain `NP` -/
example : (run g s cfg).results.map (fun r => (r.d, r.prio)) =
    [(.bin 2 0 false (.un 0 0 (.leaf 0 3)) (.leaf 1 1), 17),
     (.bin 2 0 false (.leaf 0 0) (.leaf 1 1), 15)] := by decide

/-- eight items are popped: the two leaves `N`, `S\NP`, the unary `NP`, the first `S` and its final
    item, then the tagged `NP`, the second `S` and its final item -/
example : ((run g s cfg).popped.map Item.prio) = [18, 18, 17, 17, 17, 15, 15, 15] := by decide

example : (run g s cfg).steps = 8 := by decide

/-- 1-best: the search stops at the first final item -/
example : (run g s { cfg with nbest := 1 }).results.map (fun r => (r.d, r.prio)) =
    [(.bin 2 0 false (.un 0 0 (.leaf 0 3)) (.leaf 1 1), 17)] := by decide

/-- the general theorems apply to the run with any admissible agenda, e.g. `pickFirstMax` -/
example : ∀ r ∈ (runWith pickFirstMax g s cfg).results,
    LicensedRoot g s cfg r.d ∧ r.prio = modelScore s cfg r.d :=
  fun r hr => ⟨(returned_valid pickFirstMax g s cfg pickFirstMax_ok r hr).1,
    score_accounting pickFirstMax g s cfg pickFirstMax_ok r hr⟩

example : ((runWith pickFirstMax g s cfg).popped.map Item.prio).Pairwise (· ≥ ·) :=
  pops_nonincreasing pickFirstMax g s cfg pickFirstMax_ok sentOK (by decide)

end Demo

end Depccg.SearchProps
