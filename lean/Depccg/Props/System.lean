/-
  The two feature systems are closed under their grammars, and the category table of a run over a
  one-system lexicon stays inside the system — so no rule-function call the search makes raises.
  Property theorems only; statements in `Depccg/Props/SystemDefs.lean` (unchanged), helper lemmas
  in `Depccg/Proofs/SystemLemmas.lean`.
-/
import Depccg.Props.SystemDefs
import Depccg.Proofs.SystemLemmas

namespace Depccg.SystemProps
open Depccg Search GlueRun Lazy GlueRunProps LazyProps C14

/-- English binary rules: plain-feature, named-atom categories in, such categories out -/
theorem en_system_closed : EnSystemClosedStatement := by
  intro seen x y rs hx hy h
  exact sy_en_applyBinary hx hy h

/-- Japanese binary rules: three-part-feature categories in, such categories out -/
theorem ja_system_closed : JaSystemClosedStatement := by
  intro seen x y rs hx hy h
  exact sy_ja_applyBinary hx hy h

/-- English unary rules return targets of the table -/
theorem en_unary_system_closed : EnUnarySystemClosedStatement := by
  intro table x ht r hr
  obtain ⟨p, hp, hc⟩ := Closure.cl_en_applyUnary hr
  exact ht p hp _ hc

/-- Japanese unary rules return targets of the table -/
theorem ja_unary_system_closed : JaUnarySystemClosedStatement := by
  intro table x rs ht h r hr
  obtain ⟨p, hp, hc⟩ := Closure.cl_ja_applyUnary h hr
  exact ht p hp _ hc

/-- the invariant passes from sentence to sentence (any callback history) -/
theorem history_in_system : HistoryInSystemStatement := by
  intro en seen table gst calls ht hg
  exact sy_history en seen table gst calls ht hg

/-- the category table of a lazy run stays inside the system -/
theorem lazy_table_in_system : LazyTableInSystemStatement := by
  intro pick en seen table gst s cfg ht hg
  exact sy_lazy pick en seen table gst s cfg ht hg

/-- on any two categories the table ever holds, the raw rule functions return normally -/
theorem lazy_no_raise : LazyNoRaiseStatement := by
  intro pick en seen table gst s cfg ht hg x hx y hy
  exact sy_noRaise en seen table (sy_lazy pick en seen table gst s cfg ht hg x hx)
    (sy_lazy pick en seen table gst s cfg ht hg y hy)

/-- the initial table of a `run` call is inside the system -/
theorem init_in_system : InitInSystemStatement := by
  intro en categories roots hc hr
  exact sy_addRoots_mem roots categories hc hr

end Depccg.SystemProps
