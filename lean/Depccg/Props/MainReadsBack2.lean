/-
  What the program writes can be read back, continued: `--format ptb` through the model of
  `read_ptb`, `--format prolog` (English and Japanese program) through the Prolog term reader,
  on the text `print_` emits, including the newline `print` adds: the theorems.
  Statements: `Depccg/Props/MainReadsBack2Defs.lean`; lemmas: `Depccg/Proofs/MainReadsBack2Lemmas.lean`.
-/
import Depccg.Proofs.MainReadsBack2Lemmas

namespace Depccg.CliProps
open Depccg Str Search GlueRun Lazy Print Cli LazyProps Read FileProps C07

theorem main_ptb_reads_back : MainPtbReadsBackStatement := mrb2_main_ptb_reads_back

theorem main_prolog_en_reads_back : MainPrologEnReadsBackStatement := mrb2_main_prolog_en_reads_back

theorem main_prolog_ja_reads_back : MainPrologJaReadsBackStatement := mrb2_main_prolog_ja_reads_back

end Depccg.CliProps
