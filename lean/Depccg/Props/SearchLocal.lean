/-
  Locality of the search (statements in `SearchLocalDefs.lean`): the run consults the grammar only
  where it expands an item, so grammars agreeing there - in particular grammars differing only at
  categories that are never popped - give the same run, for every agenda discipline.
-/
import Depccg.Props.SearchLocalDefs
import Depccg.Proofs.SearchLocalLemmas

namespace Depccg.SearchProps
open Depccg Search

theorem run_local : RunLocalStatement := by
  intro pick g g' s cfg h
  have e : loop pick g' s cfg cfg.maxStep (init pick s cfg)
      = loop pick g s cfg cfg.maxStep (init pick s cfg) :=
    loc_stateAt_eq h cfg.maxStep (Nat.le_refl _)
  simp only [runWith, e, and_self]

theorem run_ignores_unseen : RunIgnoresUnseenStatement := by
  intro pick g g' s cfg hun hbin
  have h := run_local pick g g' s cfg (loc_agree_of_unseen hun hbin)
  exact ⟨h.1, h.2.1⟩

/-! ### non-vacuity: a concrete instance -/

namespace LocalDemo

/-- categories: 0 = NP, 1 = S\NP, 2 = S, 3 = N, 4 = a rare tag;
    `N ⇒ NP` (unary), `NP S\NP ⇒ S` (head right) -/
def g : Grammar where
  bin := fun x y => if x = 0 ∧ y = 1 then [⟨2, false⟩] else []
  un := fun x => if x = 3 then [0] else []

/-- as `g`, plus rules for the rare tag: `4 ⇒ NP`, `4 S\NP ⇒ S` (head left), `NP 4 ⇒ S`.
    They would fire if a leaf tagged 4 were ever popped. -/
def g' : Grammar where
  bin := fun x y => if x = 0 ∧ y = 1 then [⟨2, false⟩]
    else if x = 4 ∧ y = 1 then [⟨2, true⟩] else if x = 0 ∧ y = 4 then [⟨2, false⟩, ⟨0, true⟩] else []
  un := fun x => if x = 3 then [0] else if x = 4 then [0, 3] else []

/-- two tokens, five tags each, no pruning: the leaves tagged 4 enter the agenda with a low score -/
def s : Sent where
  n := 2
  tags := [[1, -3, -5, 4, -9], [-2, 6, -1, -4, -8]]
  deps := [[-1, 0, 3], [5, 2, 0]]
  roots := [2]
  passes := [[], []]

def cfg : Cfg := { penalty := 1, pruning := 5, nbest := 2, maxStep := 100 }

/-- The grammars differ (`g'.un 4 ≠ g.un 4`, `g'.bin 4 1 ≠ g.bin 4 1`), both leaves tagged 4 are in
    the agenda from the start, but the real (heap) run over `g` returns its two parses after popping
    only items of categories 0-3, where the grammars agree: the run over `g'` is the same. -/
example : g'.un 4 ≠ g.un 4 ∧ g'.bin 4 1 ≠ g.bin 4 1 ∧
    ((init pickHeap s cfg).agenda.filter (·.cat == 4)).length = 2 ∧
    (run g s cfg).results.length = 2 ∧
    (run g' s cfg).results = (run g s cfg).results ∧
    (run g' s cfg).popped = (run g s cfg).popped := by
  have hcat : ∀ it ∈ (runWith pickHeap g s cfg).popped, it.cat < 4 := by decide +kernel
  have hun : ∀ x, x < 4 → g'.un x = g.un x := by decide
  have hbin : ∀ x, x < 4 → ∀ y, y < 4 → g'.bin x y = g.bin x y := by decide
  refine ⟨by decide, by decide, by decide +kernel, by decide +kernel, ?_⟩
  refine run_ignores_unseen pickHeap g g' s cfg ?_ ?_
  · rintro x ⟨it, hit, rfl⟩
    exact hun _ (hcat it hit)
  · rintro x y ⟨it, hit, rfl⟩ ⟨it2, hit2, rfl⟩
    exact hbin _ (hcat it hit) _ (hcat it2 hit2)

end LocalDemo

end Depccg.SearchProps
