/-
  C07, the `conll` format: the decoder statement. `Read.decConll` (Depccg/Read/Conll.lean) is an
  independent reader of the ten-column table; it recovers from every printed table the rows of
  the view defined here by ONE top-down recursion on the tree (not on the text, and not by the
  bottom-up, list-mutating `_resolve_dependencies` of the printer):

    * `id`       the 1-based position of the word;
    * `word`     the word in its escaped spelling, `lemma`, `pos` (twice) with `_` as default;
    * `head`     what the head flags imply, top-down: the head word of a subtree receives the
                 number handed down from above (0 at the root); at a binary node the head child
                 inherits that number and the other child is handed the id of the head word of the
                 head child. `ConllViewStatement` says that this is the assignment described by
                 `headIdx` / `attachments` (Props/C07Defs.lean), which `conll_heads` (C07) proves of
                 the printer's `_resolve_dependencies`;
    * `cat`      the text of the leaf category;
    * `fragment` top-down as well: the openers `(<T cat head arity>` of the nodes whose FIRST word
                 this is (outermost first), the `(<L …>)` text of the leaf, and one ` )` for every
                 node whose LAST word this is. `ConllFragmentsViewStatement`: joined by blanks the
                 fragments are the AUTO line of the tree.
-/
import Depccg.Read.Conll
import Depccg.Props.C07Defs

namespace Depccg.C07
open Depccg Str Print Read TextProps

/-! ### the view -/

/-- `k` closing brackets, each with its blank -/
def closers : Nat → Str
  | 0 => []
  | k + 1 => lit " )" ++ closers k

/-- the `(<L …>)` text of a leaf as the table spells it (`_` for a missing tag) -/
def leafFrag (c : Cat) (tok : Token) : Str :=
  let pos := Token.getD tok (lit "pos") (lit "_")
  sp [lit "(<L", c.str, pos, pos, denormalize (Token.getD tok (lit "word") []), c.str ++ lit ">)"]

def unOpener (c : Cat) : Str := sp [lit "(<T", c.str, lit "0", lit "1>"]

def binOpener (c : Cat) (h : Bool) : Str := sp [lit "(<T", c.str, (if h then lit "0" else lit "1"), lit "2>"]

/-- the rows of a subtree whose first word has index `off` (0-based); `up` is the head column of
    its head word, `pre` the openers of the enclosing nodes that start at its first word, `k` the
    number of enclosing nodes that end at its last word -/
def viewRows : Tree → Nat → Nat → List Str → Nat → List ConllRow
  | .leaf c tok _ _, off, up, pre, k =>
    let pos := Token.getD tok (lit "pos") (lit "_")
    [{ id := off + 1,
       word := denormalize (Token.getD tok (lit "word") []),
       lemma := Token.getD tok (lit "lemma") (lit "_"),
       pos := pos, pos2 := pos,
       head := up,
       cat := c.str,
       fragment := sp (pre ++ [leafFrag c tok]) ++ closers k }]
  | .un c _ _ ch, off, up, pre, k => viewRows ch off up (pre ++ [unOpener c]) (k + 1)
  | .bin c _ _ h l r, off, up, pre, k =>
    let off' := off + l.numLeaves
    viewRows l off (if h then up else headIdx r off' + 1) (pre ++ [binOpener c h]) 0 ++
    viewRows r off' (if h then headIdx l off + 1 else up) [] (k + 1)

/-- what the `conll` table carries of a tree -/
def viewConll (t : Tree) : List ConllRow := viewRows t 0 0 [] 0

/-! ### hypotheses: the format has no quoting -/

/-- a text that can stand in a column: no TAB, no newline (it may be empty, it may contain blanks) -/
def Cell (s : Str) : Prop := 9 ∉ s ∧ 10 ∉ s

/-- the three attributes the table prints, where the token has them -/
def TokCells (tok : Token) : Prop :=
  ∀ k ∈ [lit "word", lit "lemma", lit "pos"], ∀ v, Token.get? tok k = some v → Cell v

/-! ### statements -/

/-- the independent reader reads every printed table back to the view of the tree. The categories
    of ALL nodes must be cells (those of the inner nodes stand in the fragments); of the tokens only
    the three printed attributes. Nothing else is assumed: that every token has a `word` follows
    from `conllOf t = .ok text`. -/
def ConllDecodeStatement : Prop :=
  ∀ (t : Tree) (text : Str),
    AllCats (fun c => Cell c.str) t → AllToks TokCells t →
    conllOf t = .ok text → decConll text = some (viewConll t)

/-- the hypotheses of `ConllDecodeStatement` are exactly what is needed: for a tree that prints,
    the reader returns the view — indeed any table with one row per word — only if all node
    categories and the three printed attributes of all tokens are cells -/
def ConllDecodeIffStatement : Prop :=
  ∀ (t : Tree) (text : Str), conllOf t = .ok text →
    (decConll text = some (viewConll t) ↔
      (AllCats (fun c => Cell c.str) t ∧ AllToks TokCells t)) ∧
    ((∃ rows, decConll text = some rows ∧ rows.length = t.numLeaves) ↔
      (AllCats (fun c => Cell c.str) t ∧ AllToks TokCells t))

/-- the same under the standing hypotheses of the text round trips (`TokOK` / `CatOK` of
    Props/TextDefs.lean, which are stronger) -/
def ConllDecodeOKStatement : Prop :=
  ∀ (t : Tree) (text : Str),
    AllCats CatOK t → AllToks TokOK t → conllOf t = .ok text → decConll text = some (viewConll t)

/-- two trees with the same table have the same view -/
def ConllInjectiveStatement : Prop :=
  ∀ (t t' : Tree) (text : Str),
    AllCats (fun c => Cell c.str) t → AllToks TokCells t →
    AllCats (fun c => Cell c.str) t' → AllToks TokCells t' →
    conllOf t = .ok text → conllOf t' = .ok text → viewConll t = viewConll t'

/-- the view, without any hypothesis: one row per word, numbered from 1; the head column is the
    printer's `_resolve_dependencies` (0 for `None`, `j + 1` for word `j`), hence (by `conll_heads`)
    0 exactly for the head word of the tree, and every other word `i` carries `j + 1` for an
    attachment `(i, j)` that a binary node of the tree makes -/
def ConllViewStatement : Prop :=
  ∀ (t : Tree),
    (viewConll t).length = t.numLeaves ∧
    (viewConll t).map (·.id) = (List.range t.numLeaves).map (· + 1) ∧
    (viewConll t).map (·.head) =
      (resolveDeps t []).2.map (fun d => match d with | some h => h + 1 | none => 0) ∧
    (∀ i r, (viewConll t)[i]? = some r →
      (r.head = 0 ↔ i = headIdx t 0) ∧
      (r.head ≠ 0 → ∃ j, r.head = j + 1 ∧ (i, j) ∈ attachments t 0))

/-- the token columns of the view, over the leaves of the tree in order: the word in its escaped
    spelling, lemma and tag (twice) with `_` as default, and the text of the leaf category -/
def ConllColumnsStatement : Prop :=
  ∀ (t : Tree),
    (viewConll t).map (fun r => (r.word, r.lemma, r.pos, r.pos2)) =
      t.tokens.map (fun tok =>
        (denormalize (Token.getD tok (lit "word") []), Token.getD tok (lit "lemma") (lit "_"),
          Token.getD tok (lit "pos") (lit "_"), Token.getD tok (lit "pos") (lit "_"))) ∧
    (viewConll t).map (·.cat) = t.leaves.map (·.cat.str)

/-- the table that was read: as many rows as words, ids `1 … n` in order, exactly one row with
    head 0, every other head the id of another word of the sentence — and the reader's own check
    `conllValidTable` accepts it -/
def ConllRowsStatement : Prop :=
  ∀ (t : Tree) (text : Str),
    AllCats (fun c => Cell c.str) t → AllToks TokCells t → conllOf t = .ok text →
    ∃ rows, decConll text = some rows ∧
      rows.length = t.numLeaves ∧
      rows.map (·.id) = (List.range t.numLeaves).map (· + 1) ∧
      (rows.filter fun r => r.head == 0).length = 1 ∧
      (∀ r ∈ rows, r.head ≠ 0 → 1 ≤ r.head ∧ r.head ≤ t.numLeaves ∧ r.head ≠ r.id) ∧
      conllValidTable rows = true

/-- the AUTO line with `_` for a missing tag (the table's spelling), as a total function -/
def autoU : Tree → Str
  | .leaf c tok _ _ => leafFrag c tok
  | .un c _ _ ch => sp [unOpener c, autoU ch, lit ")"]
  | .bin c _ _ h l r => sp [binOpener c h, autoU l, autoU r, lit ")"]

/-- the fragments of the view, joined by blanks, are the AUTO line of the tree: always the line
    with the table's default tag `_`, and `autoOf t` itself when every token has a `pos` (the
    AUTO printer's default is `POS`). No hypothesis on the characters. -/
def ConllFragmentsViewStatement : Prop :=
  ∀ (t : Tree),
    sp ((viewConll t).map (·.fragment)) = autoU t ∧
    (∀ s, AllToks (fun tok => ∃ p, Token.get? tok (lit "pos") = some p) t → autoOf t = .ok s →
      sp ((viewConll t).map (·.fragment)) = s)

end Depccg.C07
