/-
  Definitions shared by the search properties (C01 C02 C09 C10 C12 C16): licensed derivations,
  their model score, well-formed inputs, admissible `pick`s, and the statements.
-/
import Depccg.Search

namespace Depccg.SearchProps
open Depccg Search

/-! ### derivations and their scores -/

def dcat : Deriv → Nat
  | .leaf _ c => c
  | .un c _ _ => c
  | .bin c _ _ _ _ => c

def dstart : Deriv → Nat
  | .leaf t _ => t
  | .un _ _ d => dstart d
  | .bin _ _ _ l _ => dstart l

def dlen : Deriv → Nat
  | .leaf _ _ => 1
  | .un _ _ d => dlen d
  | .bin _ _ _ l r => dlen l + dlen r

def dstop (d : Deriv) : Nat := dstart d + dlen d

/-- the head word, as determined by the head flags stored in the tree -/
def dhead : Deriv → Nat
  | .leaf t _ => t
  | .un _ _ d => dhead d
  | .bin _ _ hl l r => if hl then dhead l else dhead r

def nUnary : Deriv → Nat
  | .leaf _ _ => 0
  | .un _ _ d => nUnary d + 1
  | .bin _ _ _ l r => nUnary l + nUnary r

def leafToks : Deriv → List Nat
  | .leaf t _ => [t]
  | .un _ _ d => leafToks d
  | .bin _ _ _ l r => leafToks l ++ leafToks r

def leafCats : Deriv → List (Nat × Nat)
  | .leaf t c => [(t, c)]
  | .un _ _ d => leafCats d
  | .bin _ _ _ l r => leafCats l ++ leafCats r

/-- sum of the leaves' tag scores -/
def tagSum (s : Sent) : Deriv → Int
  | .leaf t c => tagAt s t c
  | .un _ _ d => tagSum s d
  | .bin _ _ _ l r => tagSum s l + tagSum s r

/-- sum, over binary nodes, of the dependency score of the non-head child's head word attaching
    to the head child's head word (column `head + 1`) -/
def depSum (s : Sent) : Deriv → Int
  | .leaf _ _ => 0
  | .un _ _ d => depSum s d
  | .bin _ _ hl l r =>
    depSum s l + depSum s r +
      (if hl then depAt s (dhead r) (dhead l + 1) else depAt s (dhead l) (dhead r + 1))

/-- the model score of a complete tree: leaf tag scores + attachment scores of non-head children
    + root attachment − unary penalty once per unary node -/
def modelScore (s : Sent) (cfg : Cfg) (d : Deriv) : Int :=
  tagSum s d + depSum s d + depAt s (dhead d) 0 - cfg.penalty * (nUnary d)

/-- licensed by grammar and input: leaves carry admitted tags, every unary / binary node is the
    grammar result with its rule id for its children's categories (binary: with that result's
    head direction), children are adjacent, and no unary step spans a whole multi-word sentence -/
inductive Licensed (g : Grammar) (s : Sent) (cfg : Cfg) : Deriv → Prop
  | leaf (t c : Nat) (sc : Int) : t < s.n → (sc, c) ∈ admitted s cfg t → Licensed g s cfg (.leaf t c)
  | un (c rid : Nat) (d : Deriv) : Licensed g s cfg d → (g.un (dcat d))[rid]? = some c →
      (s.n = 1 ∨ dlen d ≠ s.n) → Licensed g s cfg (.un c rid d)
  | bin (c rid : Nat) (hl : Bool) (l r : Deriv) : Licensed g s cfg l → Licensed g s cfg r →
      dstop l = dstart r → (g.bin (dcat l) (dcat r))[rid]? = some ⟨c, hl⟩ →
      Licensed g s cfg (.bin c rid hl l r)

/-- a complete parse of the sentence -/
def LicensedRoot (g : Grammar) (s : Sent) (cfg : Cfg) (d : Deriv) : Prop :=
  Licensed g s cfg d ∧ dstart d = 0 ∧ dlen d = s.n ∧ dcat d ∈ s.roots

/-! ### hypotheses on the inputs -/

/-- the score matrices have the shapes `parsing.py` checks before any parsing -/
def SentOK (s : Sent) : Prop :=
  s.tags.length = s.n ∧ s.deps.length = s.n ∧ (∀ row ∈ s.deps, row.length = s.n + 1)
  ∧ (∀ row ∈ s.tags, ∀ row' ∈ s.tags, row.length = row'.length) ∧ (∀ row ∈ s.tags, row ≠ [])

/-- what is assumed of the agenda (`std::priority_queue`): `pop` hands out an element of maximal
    priority and keeps all the others (any tie-breaking, any internal arrangement), `push` adds
    exactly the given items -/
def PickOK (pick : Pick) : Prop :=
  (pick.pop [] = none) ∧
  (∀ l, l ≠ [] → ∃ it rest, pick.pop l = some (it, rest) ∧ (it :: rest).Perm l ∧ ∀ o ∈ l, o.prio ≤ it.prio) ∧
  (∀ new old, (pick.push new old).Perm (new ++ old))

/-- all rules share one head direction (as both shipped grammars do) -/
def HeadUniform (g : Grammar) : Prop :=
  (∀ x y, ∀ r ∈ g.bin x y, r.headLeft = true) ∨ (∀ x y, ∀ r ∈ g.bin x y, r.headLeft = false)

/-! ### statements -/

/-- C02: every returned item carries a licensed complete parse, whose leaves are the input
    tokens in order -/
def ReturnedValidStatement : Prop :=
  ∀ (pick : Pick) (g : Grammar) (s : Sent) (cfg : Cfg), PickOK pick →
    ∀ r ∈ (runWith pick g s cfg).results,
      LicensedRoot g s cfg r.d ∧ leafToks r.d = List.range s.n ∧ r.cat = dcat r.d ∧ r.fin = true

/-- C02 / C16: the tags on the leaves were admitted for their tokens -/
def LeafTagsAdmittedStatement : Prop :=
  ∀ (g : Grammar) (s : Sent) (cfg : Cfg) (d : Deriv), Licensed g s cfg d →
    ∀ tc ∈ leafCats d, ∃ sc, (sc, tc.2) ∈ admitted s cfg tc.1

/-- C02: a multi-word parse never has a unary step at its root -/
def NoUnaryAtRootStatement : Prop :=
  ∀ (g : Grammar) (s : Sent) (cfg : Cfg) (d : Deriv), LicensedRoot g s cfg d → 1 < s.n →
    ∀ c rid d', d ≠ .un c rid d'

/-- C09: the reported score of every returned tree is its model score, computed from the head
    flags stored in the tree; for any grammar, 1-best and n-best -/
def ScoreAccountingStatement : Prop :=
  ∀ (pick : Pick) (g : Grammar) (s : Sent) (cfg : Cfg), PickOK pick →
    ∀ r ∈ (runWith pick g s cfg).results, r.prio = modelScore s cfg r.d

/-- C10 (order): results come best first -/
def ResultsSortedStatement : Prop :=
  ∀ (pick : Pick) (g : Grammar) (s : Sent) (cfg : Cfg),
    ((runWith pick g s cfg).results.map Item.prio).Pairwise (· ≥ ·)

/-- C10 (count): never more than `nbest` results -/
def ResultsCountStatement : Prop :=
  ∀ (pick : Pick) (g : Grammar) (s : Sent) (cfg : Cfg), PickOK pick →
    (runWith pick g s cfg).results.length ≤ cfg.nbest

/-- C01 (observable half): the priorities of the items taken from the agenda never increase
    during one search — for any grammar (head-uniform or not), any `pick`, penalty ≥ 0 -/
def PopsNonincreasingStatement : Prop :=
  ∀ (pick : Pick) (g : Grammar) (s : Sent) (cfg : Cfg), PickOK pick → SentOK s → 0 ≤ cfg.penalty →
    ((runWith pick g s cfg).popped.map Item.prio).Pairwise (· ≥ ·)

/-- the estimate is an upper bound: a popped item's priority bounds the model score of every
    complete parse that contains its derivation … stated for the item itself: inside score is
    bounded by the best tags and dependencies of its span -/
def InsideBoundedStatement : Prop :=
  ∀ (g : Grammar) (s : Sent) (cfg : Cfg) (d : Deriv), SentOK s → 0 ≤ cfg.penalty → Licensed g s cfg d →
    tagSum s d + depSum s d - cfg.penalty * (nUnary d)
      ≤ (sumTo (bestTag s) (dstop d) - sumTo (bestTag s) (dstart d))
        + (sumTo (bestDep s) (dstop d) - sumTo (bestDep s) (dstart d)) - bestDep s (dhead d)

/-- C01 (optimality): for a head-uniform grammar the first parse returned has the maximum model
    score among all licensed complete parses -/
def FirstParseOptimalStatement : Prop :=
  ∀ (pick : Pick) (g : Grammar) (s : Sent) (cfg : Cfg), PickOK pick → SentOK s → 0 ≤ cfg.penalty →
    HeadUniform g → cfg.nbest = 1 →
    ∀ t rest, (runWith pick g s cfg).results = t :: rest →
      ∀ d, LicensedRoot g s cfg d → modelScore s cfg d ≤ t.prio

/-- C01 (failure): a sentence is reported as failed only if no licensed complete parse exists,
    unless the step budget ran out -/
def FailureOnlyIfNoneStatement : Prop :=
  ∀ (pick : Pick) (g : Grammar) (s : Sent) (cfg : Cfg), PickOK pick → SentOK s → 0 ≤ cfg.penalty →
    HeadUniform g → cfg.nbest = 1 →
    (runWith pick g s cfg).results = [] → (runWith pick g s cfg).steps < cfg.maxStep →
      ¬ ∃ d, LicensedRoot g s cfg d

/-- C10 (n-best): with the step budget not exhausted, the scores of the returned list are the
    `nbest` largest model scores over all licensed complete parses: every parse that is not
    returned scores no more than every returned one, and when fewer than `nbest` are returned
    every licensed complete parse is among them -/
def NBestTopKStatement : Prop :=
  ∀ (pick : Pick) (g : Grammar) (s : Sent) (cfg : Cfg), PickOK pick → SentOK s → 0 ≤ cfg.penalty →
    1 < cfg.nbest → (runWith pick g s cfg).steps < cfg.maxStep →
    let res := (runWith pick g s cfg).results
    (∀ d, LicensedRoot g s cfg d → d ∉ res.map (·.d) → ∀ r ∈ res, modelScore s cfg d ≤ r.prio) ∧
    (res.length < cfg.nbest → ∀ d, LicensedRoot g s cfg d → d ∈ res.map (·.d)) ∧
    (res.map (·.d)).Nodup

/-! ### the beam (C16) -/

/-- the `k` best-scoring (score, id) pairs of a row in the queue's order -/
def topK (s : Sent) (cfg : Cfg) (tok : Nat) : List (Int × Nat) := (candidates s tok).take cfg.pruning

def AdmittedPrefixStatement : Prop :=
  ∀ (s : Sent) (cfg : Cfg) (tok : Nat), ∃ k, k ≤ cfg.pruning ∧ admitted s cfg tok = (candidates s tok).take k

/-- nothing outside the `pruning` best is admitted -/
def AdmittedSubsetTopKStatement : Prop :=
  ∀ (s : Sent) (cfg : Cfg) (tok : Nat), ∀ c ∈ admitted s cfg tok, c ∈ topK s cfg tok

/-- every admitted candidate passed the probability test, when the filter is on -/
def AdmittedAllPassStatement : Prop :=
  ∀ (s : Sent) (cfg : Cfg) (tok : Nat) (i : Nat) (c : Int × Nat),
    (s.passes.getD tok []).length = (candidates s tok).length →
    (admitted s cfg tok)[i]? = some c → (s.passes.getD tok [])[i]? = some true

/-- with the filter disabled only `pruning` limits the choice -/
def FilterOffStatement : Prop :=
  ∀ (s : Sent) (cfg : Cfg) (tok : Nat), s.passes.getD tok [] = [] → admitted s cfg tok = topK s cfg tok

/-- and the first candidate that fails the test stops the admission -/
def AdmittedStopsAtFailureStatement : Prop :=
  ∀ (s : Sent) (cfg : Cfg) (tok : Nat) (i : Nat),
    (s.passes.getD tok [])[i]? = some false → (admitted s cfg tok).length ≤ i

/-- candidates come in non-increasing score order and contain each category id once -/
def CandidatesSortedStatement : Prop :=
  ∀ (s : Sent) (tok : Nat),
    ((candidates s tok).map (·.1)).Pairwise (· ≥ ·) ∧
    ((candidates s tok).map (·.2)).Perm (List.range (s.tags.getD tok []).length)

end Depccg.SearchProps
