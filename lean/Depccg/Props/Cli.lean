/-
  The whole program (`Cli.mainText`: input lines and tagger scores in, printed text out).
  Property theorems only; the statements are in Depccg/Props/CliDefs.lean, helper lemmas in
  Depccg/Proofs/CliLemmas.lean.
-/
import Depccg.Props.CliDefs
import Depccg.Props.TopLevel
import Depccg.Props.File
import Depccg.Proofs.CliLemmas

namespace Depccg.CliProps
open Depccg Str Search GlueRun Lazy Print Cli Read FileProps LazyProps

/-! ### the score text -/

/-- the `'{:.8f}'` text of `k/64` reads back to `k` -/
theorem fmt8_roundtrip : Fmt8RoundtripStatement := cli_fmt8_roundtrip

/-- the score text of a result (`-inf` included) is a legal score text for the file readers -/
theorem fmt8_score_ok : Fmt8ScoreOKStatement := cli_scoreText_ok

/-! ### the input side -/

/-- the three piped formats are read field by field -/
theorem of_piped : OfPipedStatement := cli_ofPiped

/-- a line of blank-separated words becomes one token per word, in order -/
theorem tokens_of_line : TokensOfLineStatement := cli_tokensOfLine

/-- `--root-cats` reads back the categories whose texts were joined by `|` -/
theorem roots_of : RootsOfStatement := cli_rootsOf

/-! ### C11 at the level of the program -/

/-- the printed records are those of each sentence parsed alone, in input order -/
theorem main_eq_map_solo : MainEqMapSoloStatement := cli_main_eq_map_solo

/-- `--num-processes` does not change the output -/
theorem main_procs_irrelevant : MainProcsIrrelevantStatement := cli_main_procs_irrelevant

/-! ### what the program writes can be read back -/

/-- the AUTO text printed is read by `read_auto` to one result per returned tree -/
theorem main_auto_reads_back : MainAutoReadsBackStatement := cli_main_auto_reads_back

/-! ### the statements are not vacuous: evaluations -/

section examples

example : fmt8 (-96) = lit "-1.50000000" := by decide +kernel
example : fmt8 5 = lit "0.07812500" := by decide +kernel
example : fmt8 0 = lit "0.00000000" := by decide +kernel
example : fmt8 (-1) = lit "-0.01562500" := by decide +kernel
example : fmt8 6400 = lit "100.00000000" := by decide +kernel
example : readFmt8 (lit "-1.50000000") = some (-96) := by decide +kernel
example : readFmt8 (lit "0.07812500") = some 5 := by decide +kernel
/-- not every `d+.d{8}` text is a multiple of 1/64; a text with a second point is not read -/
example : readFmt8 (lit "0.10000000") = none := by decide +kernel
example : readFmt8 (lit "1.5.0000000") = none := by decide +kernel
example : scoreText none = lit "-inf" := rfl

example : ofPiped (lit "John|NNP|I-PER") =
    .ok [(lit "word", lit "John"), (lit "lemma", lit "XX"), (lit "pos", lit "NNP"),
         (lit "entity", lit "I-PER"), (lit "chunk", lit "XX")] := by decide +kernel
example : ofPiped (lit "runs|run|VBZ|O|I-VP") =
    .ok [(lit "word", lit "runs"), (lit "lemma", lit "run"), (lit "pos", lit "VBZ"),
         (lit "entity", lit "O"), (lit "chunk", lit "I-VP")] := by decide +kernel
/-- by the theorem -/
example : ofPiped (joinSep cBar [lit "runs", lit "run", lit "VBZ", lit "O"]) =
    .ok [(lit "word", lit "runs"), (lit "lemma", lit "run"), (lit "pos", lit "VBZ"),
         (lit "entity", lit "O"), (lit "chunk", lit "XX")] :=
  (of_piped (lit "runs") (lit "run") (lit "VBZ") (lit "O") [] (by unfold NoBar; decide)
    (by unfold NoBar; decide) (by unfold NoBar; decide) (by unfold NoBar; decide) (by unfold NoBar; decide)).2.1
/-- two fields, or six, are refused -/
example : ofPiped (lit "John|NNP") = .error .assertion := by decide +kernel
example : ofPiped (lit "a|b|c|d|e|f") = .error .assertion := by decide +kernel

example : tokensOfLine false (lit "John sleeps") =
    .ok [Token.ofWord (lit "John"), Token.ofWord (lit "sleeps")] :=
  tokens_of_line [lit "John", lit "sleeps"] (by decide) (by
    intro w hw
    simp only [List.mem_cons, List.not_mem_nil, or_false] at hw
    rcases hw with rfl | rfl <;> (unfold NoBlank; decide))

/-! #### one sentence of one word, a grammar without rules -/

def exG : CatGrammar := { bin := fun _ _ => [], un := fun _ => [] }
def exCfg : Cfg := { penalty := 6, pruning := 50, nbest := 1, maxStep := 10000000 }
def exO : Opts where
  cfg := exCfg
  maxLength := 250
  procs := 4
  rootCats := lit "S[dcl]|NP"
  piped := false
  format := .auto
def exScores : List Scores := [{ tags := [[-32]], deps := [[-8, 0]], passes := [[true]] }]

/-- tag score -0.5, root dependency score -0.125 -/
theorem exMain : mainText exG exO [lit "John"] [lit "NP"] exScores =
    .ok (lit "ID=1, log probability=-0.62500000\n(<L NP XX XX John NP>)\n\n") := by decide +kernel

/-- the only category of the tagger is not a root category: the placeholder, score `-inf` -/
example : mainText exG exO [lit "John"] [lit "S"] exScores =
    .ok (lit "ID=1, log probability=-inf\n(<L NP POS POS FAILED NP>)\n\n") := by decide +kernel

/-- `--num-processes`, by the theorem -/
example : mainText exG { exO with procs := 1 } [lit "John"] [lit "NP"] exScores =
    .ok (lit "ID=1, log probability=-0.62500000\n(<L NP XX XX John NP>)\n\n") := by
  rw [main_procs_irrelevant exG exO 1 [lit "John"] [lit "NP"] exScores [.atom (lit "NP") (.un none)]
    (by decide +kernel) (by decide)]
  · exact exMain
  · intro doc hdoc x hx
    have : doc = [[Token.ofWord (lit "John")]] := by
      have h : Cli.mapExcept (tokensOfLine exO.piped) [lit "John"] = .ok [[Token.ofWord (lit "John")]] := by
        decide +kernel
      rw [h] at hdoc
      cases hdoc
      rfl
    subst this
    simp only [zipSents, exScores, List.mem_singleton] at hx
    subst hx
    intro row hrow
    simp only [List.mem_singleton] at hrow
    subst hrow
    decide

/-- the printed text read back by `read_auto` -/
example : (readAutoFile .en (lit "ID=1, log probability=-0.62500000\n(<L NP XX XX John NP>)\n\n")).map
    (fun rs => rs.map (·.1)) = .ok [lit "ID=1, log probability=-0.62500000"] := by decide +kernel

/-! #### `--root-cats` -/

example : rootsOf (lit "S[dcl]|NP") = .ok [C20.exS, C20.exNP] := by decide +kernel

/-- by the theorem -/
example : rootsOf (joinSep cBar ([C20.exS, C20.exNP].map Cat.str)) = .ok [C20.exS, C20.exNP] := by
  refine roots_of [C20.exS, C20.exNP] (by decide) ?_
  intro c hc
  simp only [List.mem_cons, List.not_mem_nil, or_false] at hc
  rcases hc with rfl | rfl
  · exact ⟨C20.exS_wf, by unfold NoBar; decide +kernel⟩
  · exact ⟨C20.exNP_wf, by unfold NoBar; decide +kernel⟩

/-- a category with the `|` slash cannot be named: the text is cut inside it -/
example : rootsOf (Cat.fn C20.exS cBar C20.exNP).str = .ok [C20.exS, C20.exNP] := by decide +kernel

/-! #### the AUTO text read back, failure placeholder included -/

/-- the placeholder is within the domain of the AUTO round trip -/
theorem placeholder_auto : AutoTreeOK .en placeholder := by
  refine ⟨exNP_ok, trivial, ⟨_, rfl⟩, ?_⟩
  simp only [TextProps.PlainWord]; decide

def exResults : List SentResult := [.parsed [(exC, -40)], .failed]

theorem exResults_printed : printText .auto exResults =
    .ok (lit ("ID=1, log probability=-0.62500000\n(<L NP XX XX Mary NP>)\n" ++
              "ID=2, log probability=-inf\n(<L NP POS POS FAILED NP>)\n\n")) := by decide +kernel

example : ∃ rs, fileImage (TextProps.autoImage .en) (exResults.map scored) = .ok rs ∧
    readAutoFile .en (lit ("ID=1, log probability=-0.62500000\n(<L NP XX XX Mary NP>)\n" ++
              "ID=2, log probability=-inf\n(<L NP POS POS FAILED NP>)\n\n")) = .ok rs := by
  refine main_auto_reads_back .en exResults _ ?_ exResults_printed
  intro r hr ts hts
  simp only [exResults, List.mem_cons, List.not_mem_nil, or_false] at hr
  rcases hr with rfl | rfl
  · simp only [scored, List.map_cons, List.map_nil, List.mem_singleton] at hts
    subst hts
    exact exC_auto
  · simp only [scored, List.mem_singleton] at hts
    subst hts
    exact placeholder_auto

end examples

end Depccg.CliProps
