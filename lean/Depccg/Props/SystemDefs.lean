/-
  The two feature systems are closed under their grammars: the English rule functions, given
  categories whose atoms all carry a plain (one-part) feature, return such categories; the Japanese
  ones, given categories whose atoms all carry a three-part feature, return such categories. With
  C14 `total_en` / `total_ja` (the rule functions never raise inside one system) this makes "a rule
  function that raises counts as returning nothing" — the one modelling convention of
  `EndToEnd.enGrammar` / `jaGrammar` — vacuous for every run over a one-system lexicon: no call the
  search ever makes raises.
-/
import Depccg.Props.C14Defs
import Depccg.Props.LazyDefs
import Depccg.Props.OutputWFDefs

namespace Depccg.SystemProps
open Depccg Search GlueRun Lazy GlueRunProps LazyProps C14

/-- a category of the English system: plain features, named atoms -/
def InEn (c : Cat) : Prop := AllUnary c ∧ NonEmptyBases c

/-- a category of the Japanese system: three-part features -/
def InJa (c : Cat) : Prop := AllTernary c

def InSys (en : Bool) (c : Cat) : Prop := if en then InEn c else InJa c

def EnSystemClosedStatement : Prop :=
  ∀ (seen : Option (List (Cat × Cat))) (x y : Cat) (rs : List RuleRes),
    InEn x → InEn y → En.applyBinary seen x y = .ok rs → ∀ r ∈ rs, InEn r.cat

def JaSystemClosedStatement : Prop :=
  ∀ (seen : Option (List (Cat × Cat))) (x y : Cat) (rs : List RuleRes),
    InJa x → InJa y → Ja.applyBinary seen x y = .ok rs → ∀ r ∈ rs, InJa r.cat

/-- the unary tables are data -/
def TableIn (P : Cat → Prop) (table : List (Cat × List Cat)) : Prop := ∀ p ∈ table, ∀ c ∈ p.2, P c

def EnUnarySystemClosedStatement : Prop :=
  ∀ (table : List (Cat × List Cat)) (x : Cat), TableIn InEn table → ∀ r ∈ En.applyUnary table x, InEn r.cat

def JaUnarySystemClosedStatement : Prop :=
  ∀ (table : List (Cat × List Cat)) (x : Cat) (rs : List RuleRes), TableIn InJa table →
    Ja.applyUnary table x = .ok rs → ∀ r ∈ rs, InJa r.cat

/-- the category table of a run over a one-system lexicon (tagger categories and root categories
    are in `gst.cats` from the start: `GlueRun.init`) stays inside the system -/
def LazyTableInSystemStatement : Prop :=
  ∀ (pick : Pick) (en : Bool) (seen : Option (List (Cat × Cat))) (table : List (Cat × List Cat))
    (gst : GSt) (s : Sent) (cfg : Cfg),
    TableIn (InSys en) table → (∀ c ∈ gst.cats, InSys en c) →
    ∀ c ∈ (runLWith pick (OutputWF.shipped en seen table) gst s cfg).2.cats, InSys en c

/-- the raw rule functions (before "an exception counts as nothing") on a pair / a category -/
def NoRaise (en : Bool) (seen : Option (List (Cat × Cat))) (table : List (Cat × List Cat)) (x y : Cat) : Prop :=
  if en then (∃ rs, En.applyBinary seen x y = .ok rs)
  else (∃ rs, Ja.applyBinary seen x y = .ok rs) ∧ (∃ rs, Ja.applyUnary table x = .ok rs)

/-- the callbacks only ever apply the rule functions to categories of the table (`GlueRun.step`),
    and on any two categories the table ever holds they return normally -/
def LazyNoRaiseStatement : Prop :=
  ∀ (pick : Pick) (en : Bool) (seen : Option (List (Cat × Cat))) (table : List (Cat × List Cat))
    (gst : GSt) (s : Sent) (cfg : Cfg),
    TableIn (InSys en) table → (∀ c ∈ gst.cats, InSys en c) →
    ∀ x ∈ (runLWith pick (OutputWF.shipped en seen table) gst s cfg).2.cats,
    ∀ y ∈ (runLWith pick (OutputWF.shipped en seen table) gst s cfg).2.cats, NoRaise en seen table x y

/-- for a whole call of `depccg.parsing.run`: the initial table is the tagger's categories and the
    root categories -/
def InitInSystemStatement : Prop :=
  ∀ (en : Bool) (categories roots : List Cat),
    (∀ c ∈ categories, InSys en c) → (∀ c ∈ roots, InSys en c) →
    ∀ c ∈ (GlueRun.init categories roots).cats, InSys en c

/-- and the invariant passes from sentence to sentence (any callback history) -/
def HistoryInSystemStatement : Prop :=
  ∀ (en : Bool) (seen : Option (List (Cat × Cat))) (table : List (Cat × List Cat)) (gst : GSt) (calls : List Call),
    TableIn (InSys en) table → (∀ c ∈ gst.cats, InSys en c) →
    ∀ c ∈ (calls.foldl (GlueRun.step (OutputWF.shipped en seen table)) gst).cats, InSys en c

end Depccg.SystemProps
