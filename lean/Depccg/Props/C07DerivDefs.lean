/-
  C07, `deriv` format: the full decoder statement. `Read.decDeriv` is an independent reader of the
  ASCII-art layout (columns from the two header lines, a stack of column intervals for the rule
  lines); it recovers from every printed derivation the words, the tree shape, the leaf and node
  categories and the rule symbols.
-/
import Depccg.Read.Deriv
import Depccg.Props.C07Defs

namespace Depccg.C07
open Depccg Str Print Read TextProps

/-- what `deriv` carries of a tree -/
def viewDeriv : Tree → DView
  | .leaf c tok _ _ => .leaf c.str (Token.getD tok (lit "word") [])
  | .un c _ y ch => .un c.str y (viewDeriv ch)
  | .bin c _ y _ l r => .bin c.str y (viewDeriv l) (viewDeriv r)

/-- a printable field: non-empty, no blank, no newline -/
def Field (s : Str) : Prop := s ≠ [] ∧ ∀ ch ∈ s, ch ≠ 32 ∧ ch ≠ 10

/-- rule symbols: no blank, no newline, not starting with the dash the rule line is drawn with
    (may be empty) -/
def SymOK (y : Str) : Prop := (∀ ch ∈ y, ch ≠ 32 ∧ ch ≠ 10) ∧ y.head? ≠ some 45

def SymsOK : Tree → Prop
  | .leaf .. => True
  | .un _ _ y ch => SymOK y ∧ SymsOK ch
  | .bin _ _ y _ l r => SymOK y ∧ SymsOK l ∧ SymsOK r

/-- every printed derivation reads back to the view of the tree -/
def DerivDecodeStatement : Prop :=
  ∀ (t : Tree) (s : Str),
    AllCats (fun c => Field c.str) t →
    AllToks (fun tok => ∃ w, Token.get? tok (lit "word") = some w ∧ Field w) t →
    SymsOK t → derivOf t = .ok s → decDeriv s = some (viewDeriv t)

/-- the decoder is injective on views in the obvious sense: two trees with the same printed
    derivation have the same view (shape, words, categories, symbols) -/
def DerivInjectiveStatement : Prop :=
  ∀ (t t' : Tree) (s : Str),
    AllCats (fun c => Field c.str) t → AllToks (fun tok => ∃ w, Token.get? tok (lit "word") = some w ∧ Field w) t → SymsOK t →
    AllCats (fun c => Field c.str) t' → AllToks (fun tok => ∃ w, Token.get? tok (lit "word") = some w ∧ Field w) t' → SymsOK t' →
    derivOf t = .ok s → derivOf t' = .ok s → viewDeriv t = viewDeriv t'

end Depccg.C07
