/-
  The callback side of `run` (`Depccg.GlueRun`) maintains what the end-to-end theorems assume.

  Proved as stated:     `init_inv : InitInvStatement`, `run_inv : RunInvStatement`.

  FALSE as stated (the invariant `Inv` of `GlueRunDefs` is too weak to be inductive / to determine
  an existing row), refuted and restated:

  * `StepInvStatement`: `Inv` says nothing about a unary row stored for an id that is not in the
    table yet (`RowsKnown` covers binary rows only). Counterexample (`step_inv_original_false`):
    table `[A]`, a unary row `[⟨0, …⟩]` stored under the unknown id 1, `G.un A = [B]`,
    `G.un B = []`; the call `.un 0` appends `B` as id 1, and now the old row for id 1 claims a
    result of `G.un B`, which has none: `Represents` breaks.
  * `RowIsResultListStatement`: `Inv` lets an existing row be shorter than the result list
    (`Represents` only maps row entries to results, not conversely). Counterexample
    (`row_is_result_list_original_false`): table `[A]`, an empty row stored for (0, 0),
    `G.bin A A = [A]`; `binCall` keeps the empty row, whose length is 0, not 1.

  Both are true for the invariant `Inv' = Inv ∧ RowsComplete` (every stored row belongs to ids of
  the table and has as many entries as the rule function's result list), which holds initially,
  is preserved by every call and hence holds in every reachable state:
  `init_inv'`, `step_inv_partial : StepInvStatement'`, `run_inv'`,
  `row_is_result_list_partial : RowIsResultListStatement'`; `row_is_result_list_fresh` is the
  original statement under `Inv` for a row that is not stored yet, and `run_row_is_result_list`
  the original conclusion for every state reachable from `init`.
-/
import Depccg.Proofs.GlueRunLemmas

namespace Depccg.GlueRunProps
open Depccg GlueTree GlueRun

/-! ### the strengthened invariant -/

/-- every stored row belongs to ids of the category table and has one entry per result of the
    rule function -/
def RowsComplete (G : GlueRun.CatGrammar) (st : GSt) : Prop :=
  (∀ x y row, binRow st x y = some row →
    ∃ cx cy, st.cats[x]? = some cx ∧ st.cats[y]? = some cy ∧ row.length = (G.bin cx cy).length) ∧
  (∀ x row, unRow st x = some row →
    ∃ cx, st.cats[x]? = some cx ∧ row.length = (G.un cx).length)

/-- the inductive invariant: `Inv` plus completeness of the stored rows -/
def Inv' (G : GlueRun.CatGrammar) (st : GSt) : Prop := Inv G st ∧ RowsComplete G st

/-- `StepInvStatement` with `Inv'` in place of `Inv` (hypothesis and conclusion) -/
def StepInvStatement' : Prop :=
  ∀ (G : GlueRun.CatGrammar) (st : GSt) (c : Call), Inv' G st →
    Inv' G (step G st c) ∧ st.cats <+: (step G st c).cats ∧
    (∀ x y row, binRow st x y = some row → binRow (step G st c) x y = some row) ∧
    (∀ x row, unRow st x = some row → unRow (step G st c) x = some row)

/-- `RowIsResultListStatement` with `Inv'` in place of `Inv` -/
def RowIsResultListStatement' : Prop :=
  ∀ (G : GlueRun.CatGrammar) (st : GSt) (x y : Nat) (cx cy : Cat), Inv' G st →
    st.cats[x]? = some cx → st.cats[y]? = some cy →
    ∃ row, binRow (binCall G st x y) x y = some row ∧ row.length = (G.bin cx cy).length ∧
      ∀ (rid : Nat) (r : RuleRes), (G.bin cx cy)[rid]? = some r →
        ∃ e : CacheEntry, row[rid]? = some e ∧ (binCall G st x y).cats[e.catId]? = some r.cat ∧
          e.headLeft = r.headLeft ∧ e.opString = r.opString ∧ e.opSymbol = r.opSymbol

/-! ### preservation -/

theorem gr_inv_addBin (G : GlueRun.CatGrammar) (cats : List Cat)
    (bin : List ((Nat × Nat) × List CacheEntry)) (un : List (Nat × List CacheEntry))
    (x y : Nat) (cx cy : Cat) (h : Inv' G ⟨cats, bin, un⟩)
    (hx : cats[x]? = some cx) (hy : cats[y]? = some cy) :
    Inv' G ⟨(addAll cats (G.bin cx cy)).1, ((x, y), (addAll cats (G.bin cx cy)).2) :: bin, un⟩ := by
  obtain ⟨⟨hnd, ⟨hrb, hru⟩, _⟩, hcb, hcu⟩ := h
  have hp := gr_addAll_prefix (G.bin cx cy) cats
  have hx' := gr_prefix_get hp hx
  have hy' := gr_prefix_get hp hy
  refine ⟨⟨gr_addAll_nodup _ _ hnd, ⟨?_, ?_⟩, ?_⟩, ?_, ?_⟩
  · intro a b ca cb ha hb rid e he
    simp only [tablesOf] at ha hb he ⊢
    rw [gr_binRow_cons] at he
    by_cases hab : x = a ∧ y = b
    · rw [if_pos hab] at he
      obtain ⟨rfl, rfl⟩ := hab
      rw [hx'] at ha; cases ha
      rw [hy'] at hb; cases hb
      exact gr_addAll_entries_rev _ _ _ _ he
    · rw [if_neg hab] at he
      obtain ⟨row, hr, hre⟩ := gr_getD_get he
      rw [gr_binRow_cats _ cats _ _ un] at hr
      obtain ⟨ca', cb', hca, hcb', _⟩ := hcb a b row hr
      rw [gr_prefix_get hp hca] at ha; cases ha
      rw [gr_prefix_get hp hcb'] at hb; cases hb
      have he' : ((tablesOf ⟨cats, bin, un⟩).bin a b)[rid]? = some e := by
        simp only [tablesOf, hr, Option.getD_some]
        exact hre
      obtain ⟨r, h1, h2, h3⟩ := hrb a b ca cb hca hcb' rid e he'
      exact ⟨r, h1, gr_prefix_get hp h2, h3⟩
  · intro a ca ha rid e he
    simp only [tablesOf] at ha he ⊢
    obtain ⟨row, hr, hre⟩ := gr_getD_get he
    rw [gr_unRow_cats _ cats _ bin] at hr
    obtain ⟨ca', hca, _⟩ := hcu a row hr
    rw [gr_prefix_get hp hca] at ha; cases ha
    have he' : ((tablesOf ⟨cats, bin, un⟩).un a)[rid]? = some e := by
      simp only [tablesOf, hr, Option.getD_some]
      exact hre
    obtain ⟨r, h1, h2, h3⟩ := hru a ca hca rid e he'
    exact ⟨r, h1, gr_prefix_get hp h2, h3⟩
  · intro a b hne
    simp only [tablesOf] at hne ⊢
    rw [gr_binRow_cons] at hne
    by_cases hab : x = a ∧ y = b
    · obtain ⟨rfl, rfl⟩ := hab
      rw [hx', hy']
      exact ⟨rfl, rfl⟩
    · rw [if_neg hab] at hne
      obtain ⟨row, hr⟩ := gr_getD_ne_nil hne
      rw [gr_binRow_cats _ cats _ _ un] at hr
      obtain ⟨ca', cb', hca, hcb', _⟩ := hcb a b row hr
      rw [gr_prefix_get hp hca, gr_prefix_get hp hcb']
      exact ⟨rfl, rfl⟩
  · intro a b row hr
    rw [gr_binRow_cons] at hr
    by_cases hab : x = a ∧ y = b
    · rw [if_pos hab] at hr
      obtain ⟨rfl, rfl⟩ := hab
      cases hr
      exact ⟨cx, cy, hx', hy', gr_addAll_length _ _⟩
    · rw [if_neg hab] at hr
      rw [gr_binRow_cats _ cats _ _ un] at hr
      obtain ⟨ca', cb', hca, hcb', hl⟩ := hcb a b row hr
      exact ⟨ca', cb', gr_prefix_get hp hca, gr_prefix_get hp hcb', hl⟩
  · intro a row hr
    rw [gr_unRow_cats _ cats _ bin] at hr
    obtain ⟨ca', hca, hl⟩ := hcu a row hr
    exact ⟨ca', gr_prefix_get hp hca, hl⟩

theorem gr_inv_addUn (G : GlueRun.CatGrammar) (cats : List Cat)
    (bin : List ((Nat × Nat) × List CacheEntry)) (un : List (Nat × List CacheEntry))
    (x : Nat) (cx : Cat) (h : Inv' G ⟨cats, bin, un⟩) (hx : cats[x]? = some cx) :
    Inv' G ⟨(addAll cats (G.un cx)).1, bin, (x, (addAll cats (G.un cx)).2) :: un⟩ := by
  obtain ⟨⟨hnd, ⟨hrb, hru⟩, _⟩, hcb, hcu⟩ := h
  have hp := gr_addAll_prefix (G.un cx) cats
  have hx' := gr_prefix_get hp hx
  refine ⟨⟨gr_addAll_nodup _ _ hnd, ⟨?_, ?_⟩, ?_⟩, ?_, ?_⟩
  · intro a b ca cb ha hb rid e he
    simp only [tablesOf] at ha hb he ⊢
    obtain ⟨row, hr, hre⟩ := gr_getD_get he
    rw [gr_binRow_cats _ cats _ _ un] at hr
    obtain ⟨ca', cb', hca, hcb', _⟩ := hcb a b row hr
    rw [gr_prefix_get hp hca] at ha; cases ha
    rw [gr_prefix_get hp hcb'] at hb; cases hb
    have he' : ((tablesOf ⟨cats, bin, un⟩).bin a b)[rid]? = some e := by
      simp only [tablesOf, hr, Option.getD_some]
      exact hre
    obtain ⟨r, h1, h2, h3⟩ := hrb a b ca cb hca hcb' rid e he'
    exact ⟨r, h1, gr_prefix_get hp h2, h3⟩
  · intro a ca ha rid e he
    simp only [tablesOf] at ha he ⊢
    rw [gr_unRow_cons] at he
    by_cases hab : x = a
    · rw [if_pos hab] at he
      subst hab
      rw [hx'] at ha; cases ha
      obtain ⟨r, h1, h2, _, h3⟩ := gr_addAll_entries_rev _ _ _ _ he
      exact ⟨r, h1, h2, h3⟩
    · rw [if_neg hab] at he
      obtain ⟨row, hr, hre⟩ := gr_getD_get he
      rw [gr_unRow_cats _ cats _ bin] at hr
      obtain ⟨ca', hca, _⟩ := hcu a row hr
      rw [gr_prefix_get hp hca] at ha; cases ha
      have he' : ((tablesOf ⟨cats, bin, un⟩).un a)[rid]? = some e := by
        simp only [tablesOf, hr, Option.getD_some]
        exact hre
      obtain ⟨r, h1, h2, h3⟩ := hru a ca hca rid e he'
      exact ⟨r, h1, gr_prefix_get hp h2, h3⟩
  · intro a b hne
    simp only [tablesOf] at hne ⊢
    obtain ⟨row, hr⟩ := gr_getD_ne_nil hne
    rw [gr_binRow_cats _ cats _ _ un] at hr
    obtain ⟨ca', cb', hca, hcb', _⟩ := hcb a b row hr
    rw [gr_prefix_get hp hca, gr_prefix_get hp hcb']
    exact ⟨rfl, rfl⟩
  · intro a b row hr
    rw [gr_binRow_cats _ cats _ _ un] at hr
    obtain ⟨ca', cb', hca, hcb', hl⟩ := hcb a b row hr
    exact ⟨ca', cb', gr_prefix_get hp hca, gr_prefix_get hp hcb', hl⟩
  · intro a row hr
    rw [gr_unRow_cons] at hr
    by_cases hab : x = a
    · rw [if_pos hab] at hr
      subst hab
      cases hr
      exact ⟨cx, hx', gr_addAll_length _ _⟩
    · rw [if_neg hab] at hr
      rw [gr_unRow_cats _ cats _ bin] at hr
      obtain ⟨ca', hca, hl⟩ := hcu a row hr
      exact ⟨ca', gr_prefix_get hp hca, hl⟩

/-! ### the initial state -/

theorem gr_inv_empty (G : GlueRun.CatGrammar) (cats : List Cat) (h : cats.Nodup) :
    Inv' G ⟨cats, [], []⟩ := by
  refine ⟨⟨h, ⟨?_, ?_⟩, ?_⟩, ?_, ?_⟩
  · intro a b ca cb _ _ rid e he
    simp [tablesOf, binRow] at he
  · intro a ca _ rid e he
    simp [tablesOf, unRow] at he
  · intro a b hne
    simp [tablesOf, binRow] at hne
  · intro a b row hr
    simp [binRow] at hr
  · intro a row hr
    simp [unRow] at hr

theorem init_inv' (G : GlueRun.CatGrammar) (categories roots : List Cat) (h : categories.Nodup) :
    Inv' G (init categories roots) :=
  gr_inv_empty G _ (gr_addRoots_nodup roots categories h)

theorem init_inv : InitInvStatement := by
  intro G categories roots h
  refine ⟨(init_inv' G categories roots h).1, gr_addRoots_prefix roots categories,
    gr_addRoots_length roots categories, ?_⟩
  intro i r hr
  exact gr_addRoots_ids roots categories i r hr

/-! ### one call -/

theorem step_inv_partial : StepInvStatement' := by
  intro G st c h
  obtain ⟨cats, bin, un⟩ := st
  cases c with
  | bin x y =>
    show Inv' G (binCall G ⟨cats, bin, un⟩ x y) ∧ cats <+: (binCall G ⟨cats, bin, un⟩ x y).cats ∧
      (∀ a b row, binRow ⟨cats, bin, un⟩ a b = some row →
        binRow (binCall G ⟨cats, bin, un⟩ x y) a b = some row) ∧
      (∀ a row, unRow ⟨cats, bin, un⟩ a = some row →
        unRow (binCall G ⟨cats, bin, un⟩ x y) a = some row)
    cases hrow : binRow ⟨cats, bin, un⟩ x y with
    | some row =>
      rw [gr_binCall_some G _ x y row hrow]
      exact ⟨h, List.prefix_refl _, fun _ _ _ h => h, fun _ _ h => h⟩
    | none =>
      cases hx : cats[x]? with
      | none =>
        rw [gr_binCall_unknown G _ x y (Or.inl hx)]
        exact ⟨h, List.prefix_refl _, fun _ _ _ h => h, fun _ _ h => h⟩
      | some cx =>
        cases hy : cats[y]? with
        | none =>
          rw [gr_binCall_unknown G _ x y (Or.inr hy)]
          exact ⟨h, List.prefix_refl _, fun _ _ _ h => h, fun _ _ h => h⟩
        | some cy =>
          rw [gr_binCall_fresh G _ x y cx cy hrow hx hy]
          refine ⟨gr_inv_addBin G cats bin un x y cx cy h hx hy, gr_addAll_prefix _ _, ?_, ?_⟩
          · intro a b row hr
            rw [gr_binRow_cons]
            by_cases hab : x = a ∧ y = b
            · obtain ⟨rfl, rfl⟩ := hab
              rw [hrow] at hr
              cases hr
            · rw [if_neg hab]
              exact hr
          · intro a row hr
            exact hr
  | un x =>
    show Inv' G (unCall G ⟨cats, bin, un⟩ x) ∧ cats <+: (unCall G ⟨cats, bin, un⟩ x).cats ∧
      (∀ a b row, binRow ⟨cats, bin, un⟩ a b = some row →
        binRow (unCall G ⟨cats, bin, un⟩ x) a b = some row) ∧
      (∀ a row, unRow ⟨cats, bin, un⟩ a = some row →
        unRow (unCall G ⟨cats, bin, un⟩ x) a = some row)
    cases hrow : unRow ⟨cats, bin, un⟩ x with
    | some row =>
      rw [gr_unCall_some G _ x row hrow]
      exact ⟨h, List.prefix_refl _, fun _ _ _ h => h, fun _ _ h => h⟩
    | none =>
      cases hx : cats[x]? with
      | none =>
        rw [gr_unCall_unknown G _ x hx]
        exact ⟨h, List.prefix_refl _, fun _ _ _ h => h, fun _ _ h => h⟩
      | some cx =>
        rw [gr_unCall_fresh G _ x cx hrow hx]
        refine ⟨gr_inv_addUn G cats bin un x cx h hx, gr_addAll_prefix _ _, ?_, ?_⟩
        · intro a b row hr
          exact hr
        · intro a row hr
          rw [gr_unRow_cons]
          by_cases hab : x = a
          · subst hab
            rw [hrow] at hr
            cases hr
          · rw [if_neg hab]
            exact hr

/-! ### every sequence of calls -/

theorem gr_run_inv' (G : GlueRun.CatGrammar) (calls : List Call) : ∀ st : GSt, Inv' G st →
    Inv' G (calls.foldl (step G) st) ∧ st.cats <+: (calls.foldl (step G) st).cats := by
  induction calls with
  | nil => intro st h; exact ⟨h, List.prefix_refl _⟩
  | cons c cs ih =>
    intro st h
    obtain ⟨h1, hp, _⟩ := step_inv_partial G st c h
    obtain ⟨h2, hp2⟩ := ih (step G st c) h1
    exact ⟨h2, List.IsPrefix.trans hp hp2⟩

/-- the strengthened invariant holds in every state reachable from `init` -/
theorem run_inv' (G : GlueRun.CatGrammar) (categories roots : List Cat) (calls : List Call)
    (h : categories.Nodup) : Inv' G (calls.foldl (step G) (init categories roots)) :=
  (gr_run_inv' G calls _ (init_inv' G categories roots h)).1

theorem run_inv : RunInvStatement := by
  intro G categories roots calls h
  obtain ⟨h1, hp⟩ := gr_run_inv' G calls _ (init_inv' G categories roots h)
  exact ⟨h1.1, List.IsPrefix.trans (gr_addRoots_prefix roots categories) hp⟩

/-! ### the row after a call -/

/-- a row that is not stored yet: the original statement holds as it is -/
theorem row_is_result_list_fresh (G : GlueRun.CatGrammar) (st : GSt) (x y : Nat) (cx cy : Cat)
    (hrow : binRow st x y = none) (hx : st.cats[x]? = some cx) (hy : st.cats[y]? = some cy) :
    ∃ row, binRow (binCall G st x y) x y = some row ∧ row.length = (G.bin cx cy).length ∧
      ∀ (rid : Nat) (r : RuleRes), (G.bin cx cy)[rid]? = some r →
        ∃ e : CacheEntry, row[rid]? = some e ∧ (binCall G st x y).cats[e.catId]? = some r.cat ∧
          e.headLeft = r.headLeft ∧ e.opString = r.opString ∧ e.opSymbol = r.opSymbol := by
  rw [gr_binCall_fresh G st x y cx cy hrow hx hy]
  refine ⟨(addAll st.cats (G.bin cx cy)).2, ?_, gr_addAll_length _ _, ?_⟩
  · rw [gr_binRow_cons, if_pos ⟨rfl, rfl⟩]
  · intro rid r hr
    exact gr_addAll_entries _ _ rid r hr

theorem row_is_result_list_partial : RowIsResultListStatement' := by
  intro G st x y cx cy h hx hy
  cases hrow : binRow st x y with
  | none => exact row_is_result_list_fresh G st x y cx cy hrow hx hy
  | some row =>
    rw [gr_binCall_some G st x y row hrow]
    obtain ⟨⟨_, ⟨hrb, _⟩, _⟩, hcb, _⟩ := h
    obtain ⟨cx', cy', hx2, hy2, hl⟩ := hcb x y row hrow
    rw [hx] at hx2; cases hx2
    rw [hy] at hy2; cases hy2
    refine ⟨row, hrow, hl, ?_⟩
    intro rid r hr
    have hlt : rid < row.length := by
      rw [hl]
      apply Nat.lt_of_not_le
      intro hle
      rw [List.getElem?_eq_none hle] at hr
      cases hr
    have he : ((tablesOf st).bin x y)[rid]? = some row[rid] := by
      simp only [tablesOf, hrow, Option.getD_some]
      exact List.getElem?_eq_getElem hlt
    obtain ⟨r', h1, h2, h3⟩ := hrb x y cx cy hx hy rid row[rid] he
    have h1' : (G.bin cx cy)[rid]? = some r' := h1
    rw [hr] at h1'
    cases h1'
    exact ⟨row[rid], List.getElem?_eq_getElem hlt, h2, h3⟩

/-- in every state reachable from `init` the conclusion of `RowIsResultListStatement` holds -/
theorem run_row_is_result_list (G : GlueRun.CatGrammar) (categories roots : List Cat)
    (calls : List Call) (x y : Nat) (cx cy : Cat) (h : categories.Nodup) :
    let st := calls.foldl (step G) (init categories roots)
    st.cats[x]? = some cx → st.cats[y]? = some cy →
    ∃ row, binRow (binCall G st x y) x y = some row ∧ row.length = (G.bin cx cy).length ∧
      ∀ (rid : Nat) (r : RuleRes), (G.bin cx cy)[rid]? = some r →
        ∃ e : CacheEntry, row[rid]? = some e ∧ (binCall G st x y).cats[e.catId]? = some r.cat ∧
          e.headLeft = r.headLeft ∧ e.opString = r.opString ∧ e.opSymbol = r.opSymbol := by
  intro st hx hy
  exact row_is_result_list_partial G st x y cx cy (run_inv' G categories roots calls h) hx hy

/-! ### the two statements of `GlueRunDefs` that are false as written -/

namespace Counter

def A : Cat := .atom [65] (.un none)
def B : Cat := .atom [66] (.un none)

/-- `G.un A = [B]`, `G.un B = []`, no binary results -/
def G1 : GlueRun.CatGrammar :=
  { bin := fun _ _ => [],
    un := fun c => if c = A then [⟨B, [], [], true⟩] else [] }

/-- table `[A]`, and a unary row stored under the id 1, which the table does not have yet -/
def st1 : GSt := { cats := [A], bin := [], un := [(1, [⟨0, true, [], []⟩])] }

theorem inv_st1 : Inv G1 st1 := by
  refine ⟨by decide, ⟨?_, ?_⟩, ?_⟩
  · intro a b ca cb _ _ rid e he
    simp [tablesOf, binRow, st1] at he
  · intro a ca ha rid e he
    have ha' : [A][a]? = some ca := ha
    have h0 : a = 0 := by
      cases a with
      | zero => rfl
      | succ k => simp at ha'
    subst h0
    have : (tablesOf st1).un 0 = [] := by decide
    rw [this] at he
    simp at he
  · intro a b hne
    simp [tablesOf, binRow, st1] at hne

theorem not_inv_step_st1 : ¬ Inv G1 (step G1 st1 (.un 0)) := by
  intro h
  obtain ⟨_, ⟨_, hun⟩, _⟩ := h
  obtain ⟨r, hr, _⟩ := hun 1 B (by decide +kernel) 0 ⟨0, true, [], []⟩ (by decide +kernel)
  have hnil : (toE2E G1).un B = [] := by decide
  rw [hnil] at hr
  simp at hr

/-- `G.bin A A = [A]` -/
def G2 : GlueRun.CatGrammar :=
  { bin := fun _ _ => [⟨A, [], [], true⟩], un := fun _ => [] }

/-- table `[A]`, and an empty row stored for (0, 0) -/
def st2 : GSt := { cats := [A], bin := [((0, 0), [])], un := [] }

theorem bin_st2 (a b : Nat) : (tablesOf st2).bin a b = [] := by
  show (binRow st2 a b).getD [] = []
  unfold st2
  rw [gr_binRow_cons]
  split <;> rfl

theorem inv_st2 : Inv G2 st2 := by
  refine ⟨by decide, ⟨?_, ?_⟩, ?_⟩
  · intro a b ca cb _ _ rid e he
    rw [bin_st2] at he
    simp at he
  · intro a ca _ rid e he
    simp [tablesOf, unRow, st2] at he
  · intro a b hne
    exact absurd (bin_st2 a b) hne

end Counter

theorem step_inv_original_false : ¬ StepInvStatement := by
  intro h
  exact Counter.not_inv_step_st1 (h Counter.G1 Counter.st1 (.un 0) Counter.inv_st1).1

theorem row_is_result_list_original_false : ¬ RowIsResultListStatement := by
  intro h
  obtain ⟨row, hrow, hlen, _⟩ :=
    h Counter.G2 Counter.st2 0 0 Counter.A Counter.A Counter.inv_st2 (by decide) (by decide)
  have hr : binRow (binCall Counter.G2 Counter.st2 0 0) 0 0 = some [] := by decide
  rw [hr] at hrow
  cases hrow
  exact absurd hlen (by decide)

/-! ### a concrete run -/

namespace Example

def NP : Cat := .atom (Str.lit "NP") (.un none)
def S : Cat := .atom (Str.lit "S") (.un none)
/-- `S\NP` -/
def SbNP : Cat := .fn S Str.cBSlash NP
/-- `S/(S\NP)` -/
def TR : Cat := .fn S Str.cSlash SbNP

/-- the English binary rules (no seen-rules filter) and the unary table `{NP: [S/(S\NP)]}` -/
def enG : GlueRun.CatGrammar :=
  { bin := fun x y => match En.applyBinary none x y with | .ok rs => rs | .error _ => [],
    un := fun x => En.applyUnary [(NP, [TR])] x }

/-- categories `NP` (id 0), `S\NP` (id 1), root `S`; the search asks for (0, 1), then for the
    unary row of 0, then for (0, 1) again -/
def final : GSt := [Call.bin 0 1, .un 0, .bin 0 1].foldl (step enG) (init [NP, SbNP] [S])

end Example

open Example in
/-- `run_inv` on the run above; by evaluation: the root `S` got id 2, the first call found
    `NP S\NP ⇒ S` by backward application (`ba`, `<`) and stored the row `[⟨2, …⟩]` under (0, 1),
    the unary call appended the type-raised category as id 3, the repeated call changed nothing -/
example :
    Inv enG final ∧ [NP, SbNP] <+: final.cats ∧
    (addRoots [NP, SbNP] [S]).2 = [2] ∧
    final.cats = [NP, SbNP, S, TR] ∧
    binRow final 0 1 = some [⟨2, true, Str.lit "ba", Str.lit "<"⟩] ∧
    unRow final 0 = some [⟨3, true, Str.lit "tr", Str.lit "<un>"⟩] ∧
    final.bin.length = 1 :=
  ⟨(run_inv enG [NP, SbNP] [S] [.bin 0 1, .un 0, .bin 0 1] (by decide)).1,
   (run_inv enG [NP, SbNP] [S] [.bin 0 1, .un 0, .bin 0 1] (by decide)).2,
   by decide +kernel, by decide +kernel, by decide +kernel, by decide +kernel, by decide +kernel⟩

end Depccg.GlueRunProps
