/-
  Well-formedness is preserved by the grammars ("type preservation"): whatever the English /
  Japanese rule functions return for well-formed categories is a well-formed category again, so
  every category in a tree licensed by the rule functions over well-formed lexical categories is
  well-formed — and can be printed and read back (C05) like the lexical ones.
-/
import Depccg.Props.C05Defs
import Depccg.Props.EndToEndDefs
import Depccg.Props.TextDefs

namespace Depccg.Closure
open Depccg C05 TextProps

def EnBinaryClosedStatement : Prop :=
  ∀ (seen : Option (List (Cat × Cat))) (x y : Cat) (rs : List RuleRes),
    WF x → WF y → En.applyBinary seen x y = .ok rs → ∀ r ∈ rs, WF r.cat

def JaBinaryClosedStatement : Prop :=
  ∀ (seen : Option (List (Cat × Cat))) (x y : Cat) (rs : List RuleRes),
    WF x → WF y → Ja.applyBinary seen x y = .ok rs → ∀ r ∈ rs, WF r.cat

/-- the unary tables are data: their targets are well-formed (for the shipped tables this is
    `Generated.shipped_all_wf`, C17) -/
def TableWF (table : List (Cat × List Cat)) : Prop := ∀ p ∈ table, ∀ c ∈ p.2, WF c

def EnUnaryClosedStatement : Prop :=
  ∀ (table : List (Cat × List Cat)) (x : Cat), TableWF table → ∀ r ∈ En.applyUnary table x, WF r.cat

def JaUnaryClosedStatement : Prop :=
  ∀ (table : List (Cat × List Cat)) (x : Cat) (rs : List RuleRes), TableWF table →
    Ja.applyUnary table x = .ok rs → ∀ r ∈ rs, WF r.cat

/-- a grammar all of whose results are well-formed on well-formed inputs -/
def GrammarClosed (G : EndToEnd.CatGrammar) : Prop :=
  (∀ x y, WF x → WF y → ∀ r ∈ G.bin x y, WF r.cat) ∧ (∀ x, WF x → ∀ r ∈ G.un x, WF r.cat)

def leafCats : Tree → List Cat
  | .leaf c _ _ _ => [c]
  | .un _ _ _ ch => leafCats ch
  | .bin _ _ _ _ l r => leafCats l ++ leafCats r

/-- every category of a licensed tree over well-formed lexical categories is well-formed -/
def LicensedTreeWFStatement : Prop :=
  ∀ (G : EndToEnd.CatGrammar) (t : Tree), GrammarClosed G → EndToEnd.TreeLicensed G t →
    (∀ c ∈ leafCats t, WF c) → AllCats WF t

/-- both shipped grammars (any seen-rule set, any well-formed unary table) are closed -/
def ShippedClosedStatement : Prop :=
  ∀ (seen : Option (List (Cat × Cat))) (table : List (Cat × List Cat)), TableWF table →
    GrammarClosed (EndToEnd.enGrammar seen table) ∧ GrammarClosed (EndToEnd.jaGrammar seen table)

end Depccg.Closure
