/-
  C01 / C10 at full strength for the lazy run (`Depccg.Lazy.runL`, the model of the real call):
  optimality, failure and n-best against ALL derivations the rule functions license (stated over
  categories, `FullOptimalDefs.lean`), not only against those licensed by the part of the grammar
  the search happened to cache. All three statements are proved as stated.

  Proof: a category-level derivation is realised, bottom-up, by a list of further callbacks after
  which the cache licenses its id-level counterpart (`fo_build`); `lazy_eq_final_partial` holds for
  every such list of later callbacks, so the lazy run is `Search.run` over the view of that larger
  cache (`fo_reduce`), to which the search theorems of `SearchHeap.lean` apply.
-/
import Depccg.Props.FullOptimalDefs
import Depccg.Proofs.FullOptimalLemmas

namespace Depccg.FullOptimal
open Depccg Search SearchProps GlueTree GlueRun Lazy LazyProps GlueRunProps

theorem lazy_optimal_full : LazyOptimalFullStatement := by
  intro G categories roots calls cfg x hnd hlex hu s gstH hs hpen h1 t rest hres cd hcd
  obtain ⟨g', d, hinv', heq, hroot, hm⟩ := fo_reduce G categories roots calls cfg x hnd hlex cd hcd
  have hres' : (run (view g') s cfg).results = t :: rest := by
    rw [← heq.1]
    exact hres
  rw [← fo_match_score s cfg cd d hm]
  exact run_first_parse_optimal (view g') s cfg hs hpen (fo_head_uniform hu hinv') h1 t rest hres' d hroot

theorem lazy_failure_full : LazyFailureFullStatement := by
  intro G categories roots calls cfg x hnd hlex hu s gstH hs hpen h1 hres hsteps hex
  obtain ⟨cd, hcd⟩ := hex
  obtain ⟨g', d, hinv', heq, hroot, -⟩ := fo_reduce G categories roots calls cfg x hnd hlex cd hcd
  have hres' : (run (view g') s cfg).results = [] := by
    rw [← heq.1]
    exact hres
  have hsteps' : (run (view g') s cfg).steps < cfg.maxStep := by
    rw [← heq.2.2.1]
    exact hsteps
  exact run_failure_only_if_none (view g') s cfg hs hpen (fo_head_uniform hu hinv') h1 hres' hsteps'
    ⟨d, hroot⟩

theorem lazy_nbest_full : LazyNBestFullStatement := by
  intro G categories roots calls cfg x hnd hlex s gstH hs hpen hn hsteps res cd hcd
  obtain ⟨g', d, -, heq, hroot, hm⟩ := fo_reduce G categories roots calls cfg x hnd hlex cd hcd
  have hres : res = (run (view g') s cfg).results := heq.1
  have hsteps' : (run (view g') s cfg).steps < cfg.maxStep := by
    rw [← heq.2.2.1]
    exact hsteps
  obtain ⟨htop, -, -⟩ := run_nbest_topk (view g') s cfg hs hpen hn hsteps'
  rw [← hres] at htop
  by_cases hmem : d ∈ res.map (·.d)
  · right
    obtain ⟨r, hr, hrd⟩ := List.mem_map.1 hmem
    refine ⟨r, hr, ?_, ?_⟩
    · have hr' : r ∈ (run (view g') s cfg).results := by
        rw [← hres]
        exact hr
      rw [run_score_accounting (view g') s cfg r hr', hrd]
      exact fo_match_score s cfg cd d hm
    · rw [hrd]
      exact (fo_match_skel s cd d hm).2.2.2.2.2.2.2
  · left
    intro r hr
    rw [← fo_match_score s cfg cd d hm]
    exact htop d hroot hmem r hr

end Depccg.FullOptimal
