/-
  C19 at the level of the program for the two XML formats. `element.set` of lxml refuses text that
  is not XML text (`Xml.xmlStrOk`: control characters other than tab / newline / carriage return,
  U+FFFE, U+FFFF, surrogates), so `--format xml` / `--format jigg_xml` can fail on such input — the
  only way they can: when the input lines, the tagger's category names, `--root-cats` and the unary
  table hold XML text, the program prints a document whatever the sentences and scores are. (The
  rule functions build every category out of pieces of their arguments and fixed ASCII names, so
  XML text is closed under the grammars.)
-/
import Depccg.Props.MainTotalDefs2
import Depccg.Print.XmlText

namespace Depccg.CliProps
open Depccg Str Search GlueRun Lazy Print Cli LazyProps Xml

/-- every string of the category is XML text -/
def XmlCat (c : Cat) : Prop := xmlStrOk c.str = true

/-- XML text is closed under both shipped grammars (any seen-rule set, any unary table of such
    categories) -/
def ShippedXmlClosedStatement : Prop :=
  ∀ (en : Bool) (seen : Option (List (Cat × Cat))) (table : List (Cat × List Cat)),
    (∀ p ∈ table, ∀ c ∈ p.2, XmlCat c) →
    (∀ x y, XmlCat x → XmlCat y → ∀ r ∈ (OutputWF.shipped en seen table).bin x y, XmlCat r.cat) ∧
    (∀ x, XmlCat x → ∀ r ∈ (OutputWF.shipped en seen table).un x, XmlCat r.cat)

/-- parsing a category name of XML text gives a category of XML text -/
def ParseXmlCatStatement : Prop :=
  ∀ (s : Str) (c : Cat), xmlStrOk s = true → Cat.parse s = .ok c → XmlCat c

/-- the program under `--format xml` or `--format jigg_xml` prints a document whenever its inputs
    are XML text -/
def MainTotalXmlStatement : Prop :=
  ∀ (en : Bool) (seen : Option (List (Cat × Cat))) (table : List (Cat × List Cat)) (o : Opts)
    (lines tagCats : List Str) (scores : List Scores) (roots categories : List Cat) (doc : List (List Token)),
    rootsOf o.rootCats = .ok roots → Cli.mapExcept (tokensOfLine o.piped) lines = .ok doc →
    Cli.mapExcept Cat.parse tagCats = .ok categories → categories.Nodup →
    (∀ x ∈ zipSents doc scores, LexOK categories x) →
    (o.format = Fmt.xml ∨ o.format = Fmt.jiggEn ∨ o.format = Fmt.jiggJa) →
    (∀ l ∈ lines, xmlStrOk l = true) → (∀ s ∈ tagCats, xmlStrOk s = true) → xmlStrOk o.rootCats = true →
    (∀ p ∈ table, ∀ c ∈ p.2, XmlCat c) →
    ∃ text, mainText (OutputWF.shipped en seen table) o lines tagCats scores = .ok text

/-- and that hypothesis is needed: a control character in a word makes the call fail -/
def MainXmlRefusesStatement : Prop :=
  ∃ (o : Opts) (lines tagCats : List Str) (scores : List Scores),
    o.format = Fmt.xml ∧
    (∃ text, mainText (OutputWF.shipped true none []) { o with format := Fmt.auto } lines tagCats scores = .ok text) ∧
    mainText (OutputWF.shipped true none []) o lines tagCats scores = .error .valueError

end Depccg.CliProps
