/-
  C07, the `conll` format: the independent reader `Read.decConll` reads back every printed table
  to the view of the tree (ids, words in escaped spelling, lemma, the two tag columns, the head
  column implied by the head flags, the leaf categories, the AUTO fragments); hence trees with the
  same table have the same view; the table is a well-formed dependency table; the fragments are
  the AUTO line.   Statements: Depccg/Props/C07ConllDefs.lean; helper lemmas:
  Depccg/Proofs/C07ConllLemmas.lean.
-/
import Depccg.Props.C07ConllDefs
import Depccg.Props.C07
import Depccg.Proofs.C07ConllLemmas

namespace Depccg.C07
open Depccg Str Print Read TextProps

/-- every printed table reads back to the view of the tree -/
theorem conll_decode : ConllDecodeStatement := by
  intro t text hc ht hs
  rw [cn_conllOf_render t text hs]
  exact cn_decConll_render _ (cn_viewRows_ne_nil t 0 0 [] 0)
    (cn_viewRows_ok t 0 0 [] 0 hc ht (fun _ h => by cases h))

/-- … and only then: the hypotheses are necessary -/
theorem conll_decode_iff : ConllDecodeIffStatement := by
  intro t text hs
  have hconv : ∀ rows, decConll text = some rows → rows.length = t.numLeaves →
      AllCats (fun c => Cell c.str) t ∧ AllToks TokCells t := by
    intro rows hd hl
    rw [cn_conllOf_render t text hs] at hd
    have hok := cn_rows_ok_of_dec (viewConll t) rows (cn_viewRows_ne_nil t 0 0 [] 0)
      (by rw [hl, viewConll, cn_viewRows_length]) hd
    exact (cn_viewRows_ok_conv t 0 0 [] 0 hok).2
  refine ⟨⟨fun hd => hconv _ hd (cn_viewRows_length t 0 0 [] 0),
      fun h => conll_decode t text h.1 h.2 hs⟩,
    ⟨fun ⟨rows, hd, hl⟩ => hconv rows hd hl,
      fun h => ⟨_, conll_decode t text h.1 h.2 hs, cn_viewRows_length t 0 0 [] 0⟩⟩⟩

/-- under `CatOK` / `TokOK` -/
theorem conll_decode_ok : ConllDecodeOKStatement := fun t text hc ht hs =>
  conll_decode t text (cn_allCats_mono (fun _ => cn_cell_of_catOK) t hc)
    (cn_allToks_mono (fun _ => cn_tokCells_of_tokOK) t ht) hs

/-- two trees with the same table have the same view -/
theorem conll_injective : ConllInjectiveStatement := by
  intro t t' text hc ht hc' ht' hs hs'
  have h1 := conll_decode t text hc ht hs
  have h2 := conll_decode t' text hc' ht' hs'
  rw [h1] at h2
  exact Option.some.inj h2

/-- the view: one row per word, numbered from 1; the head column is `_resolve_dependencies`, that
    is (by `conll_heads`) 0 for the head word of the tree and otherwise the attachment the head
    flags make -/
theorem conll_view : ConllViewStatement := by
  intro t
  obtain ⟨_, hlen, hroot, hdep, _⟩ := conll_heads t
  refine ⟨cn_viewRows_length t 0 0 [] 0, ?_, cn_viewConll_heads t, ?_⟩
  · simpa [viewConll] using cn_viewRows_ids t 0 0 [] 0
  · intro i r hr
    obtain ⟨hlt, _, hh⟩ := cn_viewConll_row t i r hr
    by_cases hi : i = headIdx t 0
    · subst hi
      rw [hroot] at hh
      have h0 : r.head = 0 := by simpa [depNum] using hh.symm
      exact ⟨⟨fun _ => rfl, fun _ => h0⟩, fun hne => absurd h0 hne⟩
    · obtain ⟨j, hj, hm⟩ := hdep i hlt hi
      rw [hj] at hh
      have h1 : r.head = j + 1 := by simpa [depNum] using hh.symm
      exact ⟨⟨fun h0 => by omega, fun h => absurd h hi⟩, fun _ => ⟨j, h1, hm⟩⟩

/-- the token columns are those of the leaves, in order -/
theorem conll_columns : ConllColumnsStatement := fun t => cn_viewRows_columns t 0 0 [] 0

/-- the table that was read is a well-formed dependency table of the sentence -/
theorem conll_rows : ConllRowsStatement := by
  intro t text hc ht hs
  obtain ⟨hlen, hids, _, hrow⟩ := conll_view t
  have hroots : ((viewConll t).filter fun r => r.head == 0).length = 1 := by
    rw [cn_viewConll_roots]
    exact (conll_heads t).2.2.2.2
  have hheads : ∀ r ∈ viewConll t, r.head ≠ 0 →
      1 ≤ r.head ∧ r.head ≤ t.numLeaves ∧ r.head ≠ r.id := by
    intro r hr hne
    obtain ⟨i, hi⟩ := List.mem_iff_getElem?.1 hr
    obtain ⟨j, hj, hm⟩ := (hrow i r hi).2 hne
    obtain ⟨_, hid, _⟩ := cn_viewConll_row t i r hi
    have := attachments_in_span t 0 (i, j) hm
    simp only at this
    omega
  refine ⟨viewConll t, conll_decode t text hc ht hs, hlen, hids, hroots, hheads, ?_⟩
  have hnum : conllNumberedFrom 1 (viewConll t) = true := cn_viewRows_numbered t 0 0 [] 0
  simp only [conllValidTable, conllValidHeads, hnum, hroots, Bool.true_and, beq_self_eq_true,
    List.all_eq_true, Bool.and_eq_true, decide_eq_true_eq, bne_iff_ne, ne_eq]
  intro r hr
  by_cases h0 : r.head = 0
  · obtain ⟨i, hi⟩ := List.mem_iff_getElem?.1 hr
    obtain ⟨_, hid, _⟩ := cn_viewConll_row t i r hi
    omega
  · have := hheads r hr h0
    omega

/-- the fragments joined by blanks are the AUTO line -/
theorem conll_fragments_view : ConllFragmentsViewStatement := by
  intro t
  have h : sp ((viewConll t).map (·.fragment)) = autoU t := by
    have := cn_frags_spec t 0 0 [] 0
    simpa [closers, C08.frontText, viewConll] using this
  exact ⟨h, fun s hp hs => by rw [h, cn_autoU_of_autoOf t s hp hs]⟩

/-! ### the hypotheses are satisfiable: three words; the root takes its head from the RIGHT, the
  verb phrase from the LEFT; a unary node over the last word; a token without lemma and tag (the
  `_` defaults), a bracket word (escaped spelling) -/

section examples

private def kN : Cat := .atom (lit "N") (.un none)
private def kNP : Cat := .atom (lit "NP") (.un none)
private def kS : Cat := .atom (lit "S") (.un (some (lit "dcl")))
private def kVP : Cat := .fn kS cBSlash kNP
private def kTV : Cat := .fn kVP cSlash kNP

private def kTree : Tree :=
  .bin kS (lit "ba") (lit "<") false
    (.leaf kNP [(lit "word", lit "Kim")] (lit "lex") (lit "<lex>"))
    (.bin kVP (lit "fa") (lit ">") true
      (.leaf kTV [(lit "word", lit "sees"), (lit "lemma", lit "see"), (lit "pos", lit "VBZ")]
        (lit "lex") (lit "<lex>"))
      (.un kNP (lit "lex") (lit "<un>")
        (.leaf kN [(lit "word", lit "("), (lit "pos", lit "NN")] (lit "lex") (lit "<lex>"))))

private def kFrag1 : Str := lit "(<T S[dcl] 1 2> (<L NP _ _ Kim NP>)"
private def kFrag2 : Str :=
  lit "(<T S[dcl]\\NP 0 2> " ++ lit "(<L (S[dcl]\\NP)/NP VBZ VBZ sees (S[dcl]\\NP)/NP>)"
private def kFrag3 : Str := lit "(<T NP 0 1> (<L N NN NN -LRB- N>) ) ) )"

private def kText : Str :=
  lit "1\tKim\t_\t_\t_\t_\t2\tNP\t_\t" ++ kFrag1 ++ lit "\n" ++
  lit "2\tsees\tsee\tVBZ\tVBZ\t_\t0\t(S[dcl]\\NP)/NP\t_\t" ++ kFrag2 ++ lit "\n" ++
  lit "3\t-LRB-\t_\tNN\tNN\t_\t2\tN\t_\t" ++ kFrag3

private def kRows : List ConllRow :=
  [⟨1, lit "Kim", lit "_", lit "_", lit "_", 2, lit "NP", kFrag1⟩,
   ⟨2, lit "sees", lit "see", lit "VBZ", lit "VBZ", 0, lit "(S[dcl]\\NP)/NP", kFrag2⟩,
   ⟨3, lit "-LRB-", lit "_", lit "NN", lit "NN", 2, lit "N", kFrag3⟩]

private theorem kCats : AllCats (fun c => Cell c.str) kTree := by
  simp only [kTree, AllCats, Cell]; decide +kernel

private theorem kToks : AllToks TokCells kTree :=
  ⟨cn_tokCells_of_all (by simp only [Cell]; decide +kernel),
   cn_tokCells_of_all (by simp only [Cell]; decide +kernel),
   cn_tokCells_of_all (by simp only [Cell]; decide +kernel)⟩

private theorem kPrinted : conllOf kTree = .ok kText := by decide +kernel

/-- the view, computed from the tree alone -/
example : viewConll kTree = kRows := by decide +kernel

/-- evaluated: the reader on the printed text -/
example : decConll kText = some kRows := by decide +kernel

/-- the same by the theorem -/
example : decConll kText = some (viewConll kTree) := conll_decode kTree kText kCats kToks kPrinted

/-- the reader's check of the dependency table, evaluated and by the theorem -/
example : conllValidTable kRows = true := by decide +kernel

example : ∃ rows, decConll kText = some rows ∧ rows.length = 3 ∧
    rows.map (·.id) = [1, 2, 3] ∧ conllValidTable rows = true := by
  obtain ⟨rows, h1, h2, h3, _, _, h6⟩ := conll_rows kTree kText kCats kToks kPrinted
  exact ⟨rows, h1, h2, h3, h6⟩

/-- the head column against the head flags: word 2 (`sees`) is the head word of the tree; `Kim`
    and the bracket attach to it -/
example : headIdx kTree 0 = 1 ∧ attachments kTree 0 = [(2, 1), (0, 1)] := by decide +kernel

/-- the fragments joined by blanks: the AUTO line with the table's default tag … -/
example : sp (kRows.map (·.fragment)) =
    lit "(<T S[dcl] 1 2> (<L NP _ _ Kim NP>) (<T S[dcl]\\NP 0 2> " ++
    lit "(<L (S[dcl]\\NP)/NP VBZ VBZ sees (S[dcl]\\NP)/NP>) (<T NP 0 1> (<L N NN NN -LRB- N>) ) ) )" := by
  decide +kernel

/-- … which differs from `autoOf` exactly at the token without a tag (`POS` there) -/
example : autoOf kTree = .ok (
    lit "(<T S[dcl] 1 2> (<L NP POS POS Kim NP>) (<T S[dcl]\\NP 0 2> " ++
    lit "(<L (S[dcl]\\NP)/NP VBZ VBZ sees (S[dcl]\\NP)/NP>) (<T NP 0 1> (<L N NN NN -LRB- N>) ) ) )") := by
  decide +kernel

/-- columns may be empty and may contain blanks: the hypotheses ask for nothing more than
    "no TAB, no newline" -/
example :
    let t : Tree := .leaf kNP [(lit "word", lit "New York"), (lit "lemma", [])] (lit "lex") (lit "<lex>")
    conllOf t = .ok (lit "1\tNew York\t\t_\t_\t_\t0\tNP\t_\t(<L NP _ _ New York NP>)") ∧
    decConll (lit "1\tNew York\t\t_\t_\t_\t0\tNP\t_\t(<L NP _ _ New York NP>)") = some (viewConll t) := by
  decide +kernel

/-- the hypotheses are needed: a TAB inside a word gives a line with eleven columns, which the
    reader rejects; a newline inside a lemma gives a line with three columns -/
example :
    let t : Tree := .leaf kNP [(lit "word", lit "a\tb")] (lit "lex") (lit "<lex>")
    (conllOf t).map decConll = .ok none := by
  decide +kernel

example :
    let t : Tree := .leaf kNP [(lit "word", lit "a"), (lit "lemma", lit "x\ny")] (lit "lex") (lit "<lex>")
    (conllOf t).map decConll = .ok none := by
  decide +kernel

/-- the reader is strict about the layout: a missing column, a head that is not a number, a
    number with a leading zero, a column 6 that is not `_`, a trailing newline -/
example : decConll (lit "1\tKim\t_\t_\t_\t_\t0\tNP\t_") = none := by decide +kernel
example : decConll (lit "1\tKim\t_\t_\t_\t_\t-1\tNP\t_\tx") = none := by decide +kernel
example : decConll (lit "01\tKim\t_\t_\t_\t_\t0\tNP\t_\tx") = none := by decide +kernel
example : decConll (lit "1\tKim\t_\t_\t_\tx\t0\tNP\t_\tx") = none := by decide +kernel
example : decConll (lit "1\tKim\t_\t_\t_\t_\t0\tNP\t_\tx\n") = none := by decide +kernel
example : decConll (lit "1\tKim\t_\t_\t_\t_\t0\tNP\t_\tx") =
    some [⟨1, lit "Kim", lit "_", lit "_", lit "_", 0, lit "NP", lit "x"⟩] := by decide +kernel

/-- what the table does NOT carry (the view forgets it): the rule labels and symbols of the
    nodes, the other token attributes, the difference between a bracket and its escaped spelling,
    between a missing lemma / tag and the value `_` — two different trees, one table -/
example :
    let t1 : Tree := .leaf kNP [(lit "word", lit "("), (lit "entity", lit "O")] (lit "lex") (lit "<lex>")
    let t2 : Tree := .leaf kNP [(lit "word", lit "-LRB-"), (lit "lemma", lit "_"), (lit "pos", lit "_")] [] []
    t1 ≠ t2 ∧ conllOf t1 = conllOf t2 ∧ viewConll t1 = viewConll t2 := by
  decide +kernel

end examples

end Depccg.C07
