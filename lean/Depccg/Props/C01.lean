import Depccg.Search
