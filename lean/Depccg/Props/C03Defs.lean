/-
  C03  English combinatory rules are sound.   Definitions and statements.
  The schemas are stated with the declarative notions of C06 (`Compat`, `AllCompat`, `InstanceOf`,
  feature-blind equality), not with the matching algorithm.
-/
import Depccg.Props.C06Defs
import Depccg.Props.C14Defs

namespace Depccg.C03
open Depccg Cat Str

/-- the consumed argument matches structurally with compatible features -/
def PartsMatch (want got : Cat) : Prop :=
  Cat.xorEq got want = true ∧ C06.AllCompat (C06.feats want) (C06.feats got)

/-- `r` is `target` with at most its variable features replaced by features of the inputs -/
def Inst (x y r target : Cat) : Prop := C06.InstanceOf (C06.feats x ++ C06.feats y) r target

def fwdSlash (s : Nat) : Prop := s = cSlash ∨ s = cBar
def bwdSlash (s : Nat) : Prop := s = cBSlash ∨ s = cBar

def lab (os sym : String) (c : Cat) : RuleRes := ⟨c, lit os, lit sym, true⟩

def isPunctOK (c : Cat) : Prop := En.isPunct c = .ok true
def notPunct (c : Cat) : Prop := En.isPunct c = .ok false

/-- a bare `N` or `NP` (what the code tests: the category prints as `N` or `NP`) -/
def BareNorNP (c : Cat) : Prop := c.str = lit "N" ∨ c.str = lit "NP"

/-- each result is justified by the CCG schema its label names; `x y` are the inputs with `nb`
    erased.  A modifier (`X|X`) returns the other category unchanged. -/
inductive Justified (x y : Cat) : RuleRes → Prop
  | fa_mod (a b : Cat) (s : Nat) : x = .fn a s b → fwdSlash s → PartsMatch b y → a = b →
      Justified x y (lab "fa" ">" y)
  | fa (a b c : Cat) (s : Nat) : x = .fn a s b → fwdSlash s → PartsMatch b y → a ≠ b → Inst x y c a →
      Justified x y (lab "fa" ">" c)
  | ba_em : x.str = lit "S[dcl]" → y.str = lit "S[em]\\S[em]" → Justified x y (lab "ba" "<" x)
  | ba_mod (a b : Cat) (s : Nat) : y = .fn a s b → bwdSlash s → PartsMatch b x → a = b →
      Justified x y (lab "ba" "<" x)
  | ba (a b c : Cat) (s : Nat) : y = .fn a s b → bwdSlash s → PartsMatch b x → a ≠ b → Inst x y c a →
      Justified x y (lab "ba" "<" c)
  | fc_mod (a b b' c : Cat) (s1 s2 : Nat) : x = .fn a s1 b → y = .fn b' s2 c → fwdSlash s1 → fwdSlash s2 →
      PartsMatch b b' → a = b → Justified x y (lab "fc" ">B" y)
  | fc (a b b' c ra rc : Cat) (s1 s2 : Nat) : x = .fn a s1 b → y = .fn b' s2 c → fwdSlash s1 → fwdSlash s2 →
      PartsMatch b b' → a ≠ b → Inst x y ra a → Inst x y rc c → Justified x y (lab "fc" ">B" (.fn ra cSlash rc))
  | bx_mod (a b b' c : Cat) (s1 s2 : Nat) : x = .fn b s1 c → y = .fn a s2 b' → fwdSlash s1 → bwdSlash s2 →
      PartsMatch b b' → a = b' → Justified x y (lab "bx" "<B" x)
  | bx (a b b' c ra rc : Cat) (s1 s2 : Nat) : x = .fn b s1 c → y = .fn a s2 b' → fwdSlash s1 → bwdSlash s2 →
      PartsMatch b b' → a ≠ b' → Inst x y ra a → Inst x y rc c → Justified x y (lab "bx" "<B" (.fn ra cSlash rc))
  | gfc_mod (a b b' c d : Cat) (s1 s2 s3 : Nat) : x = .fn a s1 b → y = .fn (.fn b' s2 c) s3 d →
      fwdSlash s1 → fwdSlash s2 → PartsMatch b b' → a = b → Justified x y (lab "gfc" ">B" y)
  | gfc (a b b' c d ra rc rd : Cat) (s1 s2 s3 : Nat) : x = .fn a s1 b → y = .fn (.fn b' s2 c) s3 d →
      fwdSlash s1 → fwdSlash s2 → PartsMatch b b' → a ≠ b → Inst x y ra a → Inst x y rc c → Inst x y rd d →
      Justified x y (lab "gfc" ">B" (.fn (.fn ra cSlash rc) s3 rd))
  | gbx_mod (a b b' c d : Cat) (s1 s2 s3 : Nat) : x = .fn (.fn b s2 c) s3 d → y = .fn a s1 b' →
      fwdSlash s1 → fwdSlash s2 → PartsMatch b b' → a = b' → Justified x y (lab "gbx" "<B" x)
  | gbx (a b b' c d ra rc rd : Cat) (s1 s2 s3 : Nat) : x = .fn (.fn b s2 c) s3 d → y = .fn a s1 b' →
      fwdSlash s1 → fwdSlash s2 → PartsMatch b b' → a ≠ b' → Inst x y ra a → Inst x y rc c → Inst x y rd d →
      Justified x y (lab "gbx" "<B" (.fn (.fn ra cSlash rc) s3 rd))
  | conj : (x.str = lit "," ∨ x.str = lit ";" ∨ x.str = lit "conj") → notPunct y → En.isTypeRaised y = false →
      Justified x y (lab "conj" "<Φ>" (.fn y cBSlash y))
  | conj2 : x.str = lit "conj" → y.str = lit "NP\\NP" → Justified x y (lab "conj" "<Φ>" y)
  | lp : isPunctOK x → Justified x y (lab "lp" "<lp>" y)
  | rp : isPunctOK y → Justified x y (lab "rp" "<rp>" x)
  | lp_left : (x.str = lit "LQU" ∨ x.str = lit "LRB") → Justified x y (lab "lp" "<lp>" (.fn y cBSlash y))
  | comma_vp : x.str = lit "," → (y.str = lit "S[ng]\\NP" ∨ y.str = lit "S[pss]\\NP") →
      Justified x y (lab "lp" "<*>" (.fn En.sNP cBSlash En.sNP))
  | direct_speech : x.str = lit "," → y.str = lit "S[dcl]/S[dcl]" →
      Justified x y (lab "lp" "<*>" (.fn En.sNP cSlash En.sNP))

/-- soundness: every result of the English grammar is justified by the schema its label names
    (on the inputs with `nb` erased) -/
def EnSoundStatement : Prop :=
  ∀ (seen : Option (List (Cat × Cat))) (x y x' y' : Cat) (rs : List RuleRes),
    C14.AllUnary x → C14.AllUnary y →
    Cat.clear C14.nb x = .ok x' → Cat.clear C14.nb y = .ok y' →
    En.applyBinary seen x y = .ok rs → ∀ r ∈ rs, Justified x' y' r

/-- the head is always the left child -/
def EnHeadLeftStatement : Prop :=
  ∀ (seen : Option (List (Cat × Cat))) (x y : Cat) (rs : List RuleRes),
    En.applyBinary seen x y = .ok rs → ∀ r ∈ rs, r.headLeft = true

/-- the labels the English binary rules can emit -/
def enLabels : List (Str × Str) :=
  [(lit "fa", lit ">"), (lit "ba", lit "<"), (lit "fc", lit ">B"), (lit "bx", lit "<B"), (lit "gfc", lit ">B"),
   (lit "gbx", lit "<B"), (lit "conj", lit "<Φ>"), (lit "lp", lit "<lp>"), (lit "rp", lit "<rp>"), (lit "lp", lit "<*>")]

def EnLabelsClosedStatement : Prop :=
  ∀ (seen : Option (List (Cat × Cat))) (x y : Cat) (rs : List RuleRes),
    En.applyBinary seen x y = .ok rs → ∀ r ∈ rs, (r.opString, r.opSymbol) ∈ enLabels

/-- unary labels -/
def EnUnaryLabelsStatement : Prop :=
  ∀ (T : List (Cat × List Cat)) (x : Cat), ∀ r ∈ En.applyUnary T x,
    (r.opString = lit "tr" ∨ r.opString = lit "lex") ∧ r.opSymbol = lit "<un>" ∧ r.headLeft = true

/-- features in a result come from the inputs (or are absent), except for the two listed
    type-changing rules whose results are fixed categories -/
def EnFeaturesFromInputsStatement : Prop :=
  ∀ (seen : Option (List (Cat × Cat))) (x y x' y' : Cat) (rs : List RuleRes),
    C14.AllUnary x → C14.AllUnary y →
    Cat.clear C14.nb x = .ok x' → Cat.clear C14.nb y = .ok y' →
    En.applyBinary seen x y = .ok rs → ∀ r ∈ rs, r.opSymbol ≠ lit "<*>" →
      ∀ f ∈ C06.feats r.cat, f = .un none ∨ f ∈ C06.feats x' ++ C06.feats y'

/-- backward crossed composition never composes over a bare N or NP: if both functors carry a
    bare `N`/`NP` in the composed-over position, no `bx`/`gbx` result exists -/
def EnBxNotNorNPStatement : Prop :=
  ∀ (seen : Option (List (Cat × Cat))) (x y x' y' : Cat) (rs : List RuleRes),
    C14.AllUnary x → C14.AllUnary y →
    Cat.clear C14.nb x = .ok x' → Cat.clear C14.nb y = .ok y' →
    En.applyBinary seen x y = .ok rs →
    (∀ (a b c : Cat) (s1 s2 : Nat), x' = .fn b s1 c → y' = .fn a s2 b → BareNorNP b →
        ∀ r ∈ rs, r.opString ≠ lit "bx") ∧
    (∀ (a b c d : Cat) (s1 s2 s3 : Nat), x' = .fn (.fn b s2 c) s3 d → y' = .fn a s1 b → BareNorNP b →
        ∀ r ∈ rs, r.opString ≠ lit "gbx")

/-- no `nb` feature left -/
def NoNb (c : Cat) : Prop := ∀ f ∈ C06.feats c, f ≠ .un (some (lit "nb"))

/-- completeness: a schema whose premises hold with identical matched parts always yields its
    result (inputs without `nb`, unary features, non-empty atom names, no seen-rule filter) -/
def EnCompleteStatement : Prop :=
  ∀ (a b c d : Cat) (s3 : Nat),
    C14.AllUnary a → C14.AllUnary b → C14.AllUnary c → C14.AllUnary d →
    C14.NonEmptyBases a → C14.NonEmptyBases b → C14.NonEmptyBases c → C14.NonEmptyBases d →
    NoNb a → NoNb b → NoNb c → NoNb d → Cat.isSlashCode s3 = true →
    (∃ rs, En.applyBinary none (.fn a cSlash b) b = .ok rs ∧ lab "fa" ">" a ∈ rs) ∧
    (b.str ≠ lit "S[dcl]" → ∃ rs, En.applyBinary none b (.fn a cBSlash b) = .ok rs ∧ lab "ba" "<" a ∈ rs) ∧
    (∃ rs, En.applyBinary none (.fn a cSlash b) (.fn b cSlash c) = .ok rs ∧
        lab "fc" ">B" (if a = b then .fn b cSlash c else .fn a cSlash c) ∈ rs) ∧
    (¬ BareNorNP b → ∃ rs, En.applyBinary none (.fn b cSlash c) (.fn a cBSlash b) = .ok rs ∧
        lab "bx" "<B" (if a = b then .fn b cSlash c else .fn a cSlash c) ∈ rs) ∧
    (∃ rs, En.applyBinary none (.fn a cSlash b) (.fn (.fn b cSlash c) s3 d) = .ok rs ∧
        lab "gfc" ">B" (if a = b then .fn (.fn b cSlash c) s3 d else .fn (.fn a cSlash c) s3 d) ∈ rs) ∧
    (¬ BareNorNP b → ∃ rs, En.applyBinary none (.fn (.fn b cSlash c) s3 d) (.fn a cSlash b) = .ok rs ∧
        lab "gbx" "<B" (if a = b then .fn (.fn b cSlash c) s3 d else .fn (.fn a cSlash c) s3 d) ∈ rs)

end Depccg.C03
