/-
  Shared definitions for the text-format round trips (C08, C20, parts of C07).
-/
import Depccg.Print.Text
import Depccg.Read.Text
import Depccg.Props.C05Defs
import Depccg.Props.C14Defs

namespace Depccg.TextProps
open Depccg Str Print Read

/-- printable non-blank text without backslashes: non-empty, no blank / tab / newline / backslash -/
def PlainWord (w : Str) : Prop := w ≠ [] ∧ ∀ c ∈ w, c ≠ 32 ∧ c ≠ 9 ∧ c ≠ 10 ∧ c ≠ 13 ∧ c ≠ cBSlash

/-- every attribute value of the token is plain, and the token has a word -/
def TokOK (t : Token) : Prop := (∃ w, Token.get? t (lit "word") = some w) ∧ ∀ kv ∈ t, PlainWord kv.2

/-- categories the readers can take back: well-formed values (C05) whose printed text is not
    touched by the CCGbank repair of `read_auto` -/
def CatOK (c : Cat) : Prop := C05.WF c ∧ fixCat c.str = c.str ∧ ∀ ch ∈ c.str, ch ≠ 9 ∧ ch ≠ 10 ∧ ch ≠ 13

/-- all categories of the tree belong to one feature system, so that the label guesser (which
    runs the grammar on the children's categories) does not raise -/
def OneSystem (lang : Lang) (c : Cat) : Prop :=
  match lang with
  | .en => C14.AllUnary c
  | .ja => C14.AllTernary c

def AllCats (p : Cat → Prop) : Tree → Prop
  | .leaf c _ _ _ => p c
  | .un c _ _ ch => p c ∧ AllCats p ch
  | .bin c _ _ _ l r => p c ∧ AllCats p l ∧ AllCats p r

def AllToks (p : Token → Prop) : Tree → Prop
  | .leaf _ t _ _ => p t
  | .un _ _ _ ch => AllToks p ch
  | .bin _ _ _ _ l r => AllToks p l ∧ AllToks p r

/-- what `read_auto` makes of a printed tree: tokens reduced to word (escaped spelling) / pos,
    default labels on leaves and unary nodes, guessed labels on binary nodes, head flags kept -/
def autoImage (lang : Lang) : Tree → Except Err Tree
  | .leaf c tok _ _ =>
    match Token.get tok (lit "word") with
    | .error e => .error e
    | .ok w =>
      let pos := Token.getD tok (lit "pos") (lit "POS")
      .ok (Tree.mkTerminal (autoToken (denormalize w) pos pos) c)
  | .un c _ _ ch =>
    match autoImage lang ch with
    | .error e => .error e
    | .ok ch' => .ok (Tree.mkUnary c ch')
  | .bin c _ _ h l r =>
    match autoImage lang l, autoImage lang r with
    | .ok l', .ok r' =>
      match guess lang c l'.cat r'.cat with
      | .error e => .error e
      | .ok rule => .ok (.bin c rule.opString rule.opSymbol h l' r')
    | .error e, _ => .error e
    | _, .error e => .error e

/-- the last tab-separated column of every line -/
def lastColumns (s : Str) : List Str := (splitOn 10 s).map fun l => (splitOn 9 l).getLastD []

end Depccg.TextProps
