/-
  Well-formedness is preserved by the grammars ("type preservation").
  Property theorems only; statements in Depccg/Props/ClosureDefs.lean, helper lemmas in
  Depccg/Proofs/ClosureLemmas.lean.
-/
import Depccg.Props.ClosureDefs
import Depccg.Proofs.ClosureLemmas

namespace Depccg.Closure
open Depccg C05 TextProps

/-- English binary rules: results on well-formed categories are well-formed -/
theorem en_binary_closed : EnBinaryClosedStatement := by
  intro seen x y rs hx hy h
  exact cl_en_applyBinary hx hy h

/-- Japanese binary rules: results on well-formed categories are well-formed -/
theorem ja_binary_closed : JaBinaryClosedStatement := by
  intro seen x y rs hx hy h
  exact cl_ja_applyBinary hx hy h

/-- English unary rules return targets of the (well-formed) table -/
theorem en_unary_closed : EnUnaryClosedStatement := by
  intro table x ht r hr
  obtain ⟨p, hp, hc⟩ := cl_en_applyUnary hr
  exact ht p hp _ hc

/-- Japanese unary rules return targets of the (well-formed) table -/
theorem ja_unary_closed : JaUnaryClosedStatement := by
  intro table x rs ht h r hr
  obtain ⟨p, hp, hc⟩ := cl_ja_applyUnary h hr
  exact ht p hp _ hc

/-- every category of a licensed tree over well-formed lexical categories is well-formed -/
theorem licensed_tree_wf : LicensedTreeWFStatement := by
  intro G t hG ht hl
  exact cl_licensed_wf hG ht hl

/-- both shipped grammars (any seen-rule set, any well-formed unary table) are closed -/
theorem shipped_closed : ShippedClosedStatement := by
  intro seen table ht
  refine ⟨⟨?_, ?_⟩, ⟨?_, ?_⟩⟩
  · intro x y hx hy r hr
    simp only [EndToEnd.enGrammar] at hr
    split at hr
    · rename_i rs h
      exact en_binary_closed seen x y rs hx hy h r hr
    · cases hr
  · intro x _ r hr
    exact en_unary_closed table x ht r hr
  · intro x y hx hy r hr
    simp only [EndToEnd.jaGrammar] at hr
    split at hr
    · rename_i rs h
      exact ja_binary_closed seen x y rs hx hy h r hr
    · cases hr
  · intro x _ r hr
    simp only [EndToEnd.jaGrammar] at hr
    split at hr
    · rename_i rs h
      exact ja_unary_closed table x rs ht h r hr
    · cases hr

/-! ### non-vacuity: a concrete English pair with a variable feature -/

/-- `S[X]/(S[X]\NP)` -/
def exX : Cat :=
  .fn (.atom (Str.lit "S") (.un (some (Str.lit "X")))) Str.cSlash
    (.fn (.atom (Str.lit "S") (.un (some (Str.lit "X")))) Str.cBSlash (.atom (Str.lit "NP") (.un none)))

/-- `S[dcl]\NP` -/
def exY : Cat :=
  .fn (.atom (Str.lit "S") (.un (some (Str.lit "dcl")))) Str.cBSlash (.atom (Str.lit "NP") (.un none))

/-- `S[dcl]` : the variable feature `[X]` is instantiated by `[dcl]` -/
def exR : Cat := .atom (Str.lit "S") (.un (some (Str.lit "dcl")))

theorem exX_wf : WF exX := C17.wfB_sound_aux _ (by decide)
theorem exY_wf : WF exY := C17.wfB_sound_aux _ (by decide)

/-- the pair has exactly one result, forward application to `S[dcl]` … -/
example : En.applyBinary none exX exY = .ok [⟨exR, Str.lit "fa", Str.lit ">", true⟩] := by decide

/-- … which is well-formed by the theorem … -/
example : ∀ r ∈ [(⟨exR, Str.lit "fa", Str.lit ">", true⟩ : RuleRes)], WF r.cat :=
  en_binary_closed none exX exY _ exX_wf exY_wf (by decide)

/-- … and by direct evaluation -/
example : C17.wfB exR = true := by decide

/-! ### non-vacuity: a concrete Japanese pair with a variable value -/

/-- `T[case=X1,mod=nm,fin=t]/NP[case=X1,mod=nm,fin=t]` -/
def jaX : Cat :=
  .fn (Ja.triCat "T" "case" "X1" "mod" "nm" "fin" "t") Str.cSlash
    (Ja.triCat "NP" "case" "X1" "mod" "nm" "fin" "t")

/-- `NP[case=ga,mod=nm,fin=t]` -/
def jaY : Cat := Ja.triCat "NP" "case" "ga" "mod" "nm" "fin" "t"

/-- `T[case=ga,mod=nm,fin=t]` : the feature with the variable value `X1` is instantiated -/
def jaR : Cat := Ja.triCat "T" "case" "ga" "mod" "nm" "fin" "t"

theorem jaX_wf : WF jaX := C17.wfB_sound_aux _ (by decide)
theorem jaY_wf : WF jaY := C17.wfB_sound_aux _ (by decide)

example : Ja.applyBinary none jaX jaY = .ok [⟨jaR, Str.lit "fa", Str.lit ">", false⟩] := by decide

example : ∀ r ∈ [(⟨jaR, Str.lit "fa", Str.lit ">", false⟩ : RuleRes)], WF r.cat :=
  ja_binary_closed none jaX jaY _ jaX_wf jaY_wf (by decide)

example : C17.wfB jaR = true := by decide

end Depccg.Closure
