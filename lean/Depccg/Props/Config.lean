/-
  What the program parses with is what the configuration says (`read_params`).
  Theorems (statements in Props/ConfigDefs.lean, lemmas in Proofs/ConfigLemmas.lean).
-/
import Depccg.Props.ConfigDefs
import Depccg.Proofs.ConfigLemmas

namespace Depccg.ConfigProps
open Depccg Str Config

/-- The table is built iff every string parses; an entry is the targets of all its lines, in file order. -/
theorem unary_table : UnaryTableStatement := by
  intro pairs
  refine ⟨fun tbl h => ?_, fun ps h => cf_unaryTable_total pairs [] ps h⟩
  obtain ⟨ps, hps, hl⟩ := cf_unaryTable_lookup pairs [] tbl h
  refine ⟨ps, hps, fun x => ?_⟩
  rw [hl x]
  simp [C14.lookup]

/-- The English unary function of the program returns the configured targets, in file order. -/
theorem program_unary_en : ProgramUnaryEnStatement := by
  intro p dd ds L ps x h hps
  rw [C14.unary_exact_en L.table x]
  exact cf_readParams_table_lookup p dd ds L ps h hps x

/-- The Japanese unary function of the program, whenever it returns. -/
theorem program_unary_ja : ProgramUnaryJaStatement := by
  intro p dd ds L ps x rs h hps hrs
  rw [C14.unary_exact_ja L.table x rs hrs]
  exact cf_readParams_table_lookup p dd ds L ps h hps x

/-- The English gate of the program: open iff the erased pair is an erased configured pair. -/
theorem program_gate_en : ProgramGateEnStatement := by
  intro p dd L S x y sx sy h hS hne hx hy
  rw [cf_readParams_seen p dd L S h hS hne]
  exact C14.seen_gate_en S x y sx sy hx hy

/-- The Japanese gate of the program: the raw pair against the erased configured pairs. -/
theorem program_gate_ja : ProgramGateJaStatement := by
  intro p dd L S x y h hS hne
  rw [cf_readParams_seen p dd L S h hS hne]
  exact C14.seen_gate_ja S x y

/-- `--disable-seen-rules` or an empty `seen_rules` list: no filter. -/
theorem gate_off : GateOffStatement := by
  intro p dd ds L h hoff
  obtain ⟨-, -, hs, -⟩ := cf_readParams_inv p dd ds L h
  cases ds with
  | true => exact (Except.ok.inj hs).symm
  | false =>
    rcases hoff with hd | he
    · cases hd
    · rw [he] at hs
      exact (Except.ok.inj hs).symm

/-- `--disable-category-dictionary`: no dictionary. -/
theorem dict_off : DictOffStatement := by
  intro p ds L h
  obtain ⟨-, hd, -, -⟩ := cf_readParams_inv p true ds L h
  exact (Except.ok.inj hd).symm

/-- The dictionary and the root categories are the configured ones, in order. -/
theorem dict_roots : DictRootsStatement := by
  intro p dd ds L h
  obtain ⟨-, hd, -, hr⟩ := cf_readParams_inv p dd ds L h
  refine ⟨hr, fun hdd => ?_⟩
  subst hdd
  simp only [Bool.false_eq_true, if_false] at hd
  cases hm : Cli.mapExcept dictEntry p.catDict with
  | error e => rw [hm] at hd; cases hd
  | ok d =>
    rw [hm] at hd
    have : L.catDict = some d := (Except.ok.inj hd).symm
    rw [this]
    exact ⟨rfl, rfl⟩

/-- `read_params` fails only on a string that is not a category. -/
theorem read_params_total : ReadParamsTotalStatement := by
  intro p dd ds hu hdict hseen ht
  obtain ⟨ps, hps⟩ := cf_mapExcept_total parsePair p.unaryRules fun q hq => by
    obtain ⟨⟨a, ha⟩, ⟨b, hb⟩⟩ := hu q hq
    exact ⟨_, cf_parsePair_ok q a b ha hb⟩
  obtain ⟨tbl, htbl⟩ := cf_unaryTable_total p.unaryRules [] ps hps
  have h2 : ∃ d, (if dd then (Except.ok none : Except Err (Option (List (Str × List Cat))))
      else (Cli.mapExcept dictEntry p.catDict).map some) = .ok d := by
    cases dd with
    | true => exact ⟨_, rfl⟩
    | false =>
      obtain ⟨d, hd⟩ := cf_mapExcept_total dictEntry p.catDict fun q hq =>
        cf_dictEntry_total q (hdict rfl q hq)
      simp only [Bool.false_eq_true, if_false, hd]
      exact ⟨_, rfl⟩
  have h3 : ∃ s, (if ds then (Except.ok none : Except Err (Option (List (Cat × Cat))))
      else seenSet p.seenRules) = .ok s := by
    cases ds with
    | true => exact ⟨_, rfl⟩
    | false => exact cf_seenSet_total p.seenRules (hseen rfl)
  obtain ⟨d, hd⟩ := h2
  obtain ⟨s, hs⟩ := h3
  obtain ⟨roots, hroots⟩ := cf_mapExcept_total Cat.parse p.targets ht
  simp only [readParams, htbl, hd, hs, hroots]
  exact ⟨_, rfl⟩

/-! ### non-vacuity: a configuration with a repeated unary key and a repeated seen pair -/

section examples

private def cNP : Cat := .atom (lit "NP") (.un none)
private def cN : Cat := .atom (lit "N") (.un none)
private def cS (f : String) : Cat := .atom (lit "S") (.un (some (lit f)))

private def exParams : Params where
  unaryRules := [(lit "N", lit "NP"), (lit "NP", lit "S[dcl]"), (lit "N", lit "S[X]/NP")]
  seenRules := [(lit "S[dcl]/NP[nb]", lit "NP"), (lit "S[dcl]/NP", lit "NP")]
  targets := [lit "S[dcl]", lit "NP"]
  catDict := [(lit "the", [lit "NP/N", lit "N"])]

-- the two `N` lines are grouped under the first key, in file order; the two seen pairs erase to
-- the same pair (a list models the set: membership is all that is asked of it)
example : readParams exParams false false = .ok
    { table := [(cN, [cNP, .fn (cS "X") cSlash cNP]), (cNP, [cS "dcl"])]
      catDict := some [(lit "the", [.fn cNP cSlash cN, cN])]
      seen := some [(.fn (cS "dcl") cSlash cNP, cNP), (.fn (cS "dcl") cSlash cNP, cNP)]
      roots := [cS "dcl", cNP] } := by decide +kernel

-- both flags on: no dictionary, no filter
example : readParams exParams true true = .ok
    { table := [(cN, [cNP, .fn (cS "X") cSlash cNP]), (cNP, [cS "dcl"])]
      catDict := none, seen := none, roots := [cS "dcl", cNP] } := by decide +kernel

-- an empty `seen_rules` list: no filter either
example : (readParams { exParams with seenRules := [] } false false).toOption.map (·.seen) = some none := by
  decide +kernel

-- a string that is not a category: the error of the reader comes out
example : readParams { exParams with targets := [lit "S[dcl]", lit ")"] } false false =
    .error .indexError := by decide +kernel

end examples

end Depccg.ConfigProps
