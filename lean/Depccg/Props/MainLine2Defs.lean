/-
  `--format auto_extended` and `--format ja` at the level of the whole output: the records of
  `main_line_reads_back` composed with the per-line theorems — every tree line of the output decodes
  (`autoext_decode`) to words, shape, categories, rule labels, head flags and token attributes of the
  returned tree, resp. is read (`ja_roundtrip_partial`) by the model of the bank reader to the image
  of the returned tree.
-/
import Depccg.Props.MainLineDefs
import Depccg.Props.C07Defs
import Depccg.Props.C20Defs

namespace Depccg.CliProps
open Depccg Str Search GlueRun Lazy Print Cli LazyProps Read TextProps

def MainAutoExtReadsBackStatement : Prop :=
  ∀ (results : List SentResult) (text : Str),
    (∀ r ∈ results, ∀ ts ∈ scored r, AllCats CatOK ts.1 ∧ AllToks TokOK ts.1 ∧ C07.LabelsPlain ts.1) →
    printText Fmt.autoExt results = .ok text →
    ∃ recs, decLineDoc text = some recs ∧
      FileProps.Forall2 (fun (p : Nat × (Tree × Str)) (r : Nat × Str × Str) =>
        r.1 = p.1 ∧ r.2.1 = p.2.2 ∧
        C07.decExt (C07.nodes p.2.1 + 1) (splitOn cSpace r.2.2) = some (C07.viewExt p.2.1, []))
        (numbered (results.map scored)) recs

def MainJaReadsBackStatement : Prop :=
  ∀ (results : List SentResult) (text : Str),
    (∀ r ∈ results, ∀ ts ∈ scored r, AllCats C20.JaCatOK ts.1 ∧ AllToks C20.JaTokOK ts.1 ∧
      AllToks C20.JaInflOK ts.1 ∧ C20.SymOK ts.1) →
    printText Fmt.ja results = .ok text →
    ∃ recs, decLineDoc text = some recs ∧
      FileProps.Forall2 (fun (p : Nat × (Tree × Str)) (r : Nat × Str × Str) =>
        r.1 = p.1 ∧ r.2.1 = p.2.2 ∧
        ∃ t' toks, C20.jaImage p.2.1 = .ok t' ∧ readJaLine r.2.2 = .ok (t', toks))
        (numbered (results.map scored)) recs

/-- `MainJaReadsBackStatement` is false: nothing in `JaCatOK` / `JaTokOK` / `JaInflOK` / `SymOK`
    forbids the code point 10 inside a category text or a printed part-of-speech / inflection field
    (`Props/MainLine2.lean`, `main_ja_reads_back_original_false`); with the file-level hypothesis
    `FileProps.JaNoNL` on every returned tree the statement holds -/
def MainJaReadsBackPartialStatement : Prop :=
  ∀ (results : List SentResult) (text : Str),
    (∀ r ∈ results, ∀ ts ∈ scored r, AllCats C20.JaCatOK ts.1 ∧ AllToks C20.JaTokOK ts.1 ∧
      AllToks C20.JaInflOK ts.1 ∧ C20.SymOK ts.1 ∧ FileProps.JaNoNL ts.1) →
    printText Fmt.ja results = .ok text →
    ∃ recs, decLineDoc text = some recs ∧
      FileProps.Forall2 (fun (p : Nat × (Tree × Str)) (r : Nat × Str × Str) =>
        r.1 = p.1 ∧ r.2.1 = p.2.2 ∧
        ∃ t' toks, C20.jaImage p.2.1 = .ok t' ∧ readJaLine r.2.2 = .ok (t', toks))
        (numbered (results.map scored)) recs

end Depccg.CliProps
