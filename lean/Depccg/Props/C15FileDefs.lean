/-
  C15 at the level of files: the text depccg writes for `--format xml` / `--format jigg_xml`, read
  by the XML reader written in Lean and then by the models of `read_xml` / `read_jigg_xml`, gives
  back every tree of the batch (the compositions of `xml_text_decode` with `xml_roundtrip`, and of
  `jigg_text_decode` with `jigg_roundtrip_ja`). The same pipeline runs on the real files next to
  the real readers (ops `read_xml_text`, `read_jigg_text`).
-/
import Depccg.Props.C15TextDefs
import Depccg.Cli
import Depccg.Props.FileDefs

namespace Depccg.C15File
open Depccg Str Xml TextProps C15

/-- `read_xml(file)`: every `<ccg>` record through `readXTree` -/
def readXmlFile (lang : Lang) (text : Str) : Except Err (List (Tree × List Token)) :=
  match Read.readXmlText text with
  | none => .error .valueError
  | some ccgs => Cli.mapExcept (fun c : CcgElem => readXTree lang c.tree) ccgs

/-- the trees of a batch, sentence by sentence, n-best trees in order -/
def flat (batch : List (List Tree)) : List Tree := batch.flatten

/-- reading back the C&C XML text of a batch yields, for every tree in order, the image of
    `xml_roundtrip` (categories, shape, unary labels, the grammar's labels on binary nodes, the five
    token attributes) and that tree's tokens -/
def XmlFileRoundtripStatement : Prop :=
  ∀ (lang : Lang) (batch : List (List Tree)) (text : Str),
    (∀ ts ∈ batch, ∀ t ∈ ts, AllCats C05.WF t ∧ AllCats (OneSystem lang) t ∧ AllToks XmlTokOK t ∧ C15Text.TreeKeysOK t) →
    xmlText batch = .ok text →
    ∃ rs, readXmlFile lang text = .ok rs ∧
      FileProps.Forall2 (fun t r => ∃ t', xmlImage lang t = .ok t' ∧ r = (t', t'.tokens)) (flat batch) rs

/-- `read_jigg_xml(file)` under the Japanese program: every sentence through `readJiggSentence` -/
def readJiggFile (text : Str) : Except Err (List (Tree × List Token)) :=
  match Read.readJiggText text with
  | none => .error .valueError
  | some ss =>
    match Cli.mapExcept (fun s : JSentence => readJiggSentence .ja s) ss with
    | .error e => .error e
    | .ok rss => .ok rss.flatten

/-- reading back the Jigg XML text of a Japanese batch (every sentence a non-empty n-best list over
    one token sequence) yields the categories, shape and words of every tree, in order -/
def JiggFileRoundtripJaStatement : Prop :=
  ∀ (batch : List (List (Tree × Option Int))) (text : Str),
    (∀ ts ∈ batch, ts ≠ [] ∧
      (∀ p ∈ ts, AllCats C05.WF p.1 ∧ AllCats C14.AllTernary p.1 ∧ AllToks JiggTokOK p.1 ∧ C15Text.TreeKeysOK p.1) ∧
      (∀ p ∈ ts, ∀ q ∈ ts, p.1.tokens = q.1.tokens)) →
    jiggText true batch = .ok text →
    ∃ rs, readJiggFile text = .ok rs ∧
      rs.map (fun r => shapeWords r.1) = (flat (batch.map fun ts => ts.map fun p => p.1)).map shapeWords

end Depccg.C15File
