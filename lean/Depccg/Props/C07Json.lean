/-
  C07 for `--format json`, at the level of the printed characters: the text of
  `json.dumps(results, indent=4)` (`Print.jsonText`), read by the independent JSON reader
  `Read.parseJson` / `Read.readJsonOutput`, gives back the value that was printed and from it the
  sentence numbers, the n-best order, every score and every json tree.
  Statements: Depccg/Props/C07JsonDefs.lean; helper lemmas: Depccg/Proofs/C07JsonLemmas.lean.
-/
import Depccg.Props.C07JsonDefs
import Depccg.Proofs.C07JsonLemmas

namespace Depccg.C07Json
open Depccg Str Print

/-- the reader inverts the serialiser, at every nesting depth -/
theorem json_roundtrip : JsonRoundtripStatement := fun v ind h => js_roundtrip v ind h

/-- the serialiser is injective on values whose strings hold no surrogates -/
theorem json_injective : JsonInjectiveStatement := by
  intro v w hv hw e
  have h1 := js_roundtrip v 0 hv
  have h2 := js_roundtrip w 0 hw
  rw [e, h2] at h1
  exact (Option.some.inj h1).symm

/-- the output is plain ASCII whatever the words are -/
theorem json_ascii : JsonAsciiStatement := fun v ind => ascii_render v ind

/-- `repr` of a score is read back exactly -/
theorem json_float : JsonFloatStatement := fun k => by
  have := js_roundtrip (.num k) 0 (by simp only [ScalarVal])
  rwa [JVal.render] at this

/-- reading the printed text gives the numbered sentences with their trees and scores -/
theorem json_text_decode : JsonTextDecodeStatement := js_text_decode

/-- two batches with the same json text have the same json trees and scores -/
theorem json_text_injective : JsonTextInjectiveStatement := by
  intro a b ha hb e
  have h1 := js_text_decode a ha
  have h2 := js_text_decode b hb
  rw [e, h2] at h1
  exact (Option.some.inj h1).symm

/-! ### the reader evaluated on a concrete batch -/

section examples

private def cNP : Cat := .atom (lit "NP") (.un none)
private def cN : Cat := .atom (lit "N") (.un none)
private def cS : Cat := .atom (lit "S") (.un (some (lit "dcl")))
private def cVP : Cat := .fn cS cBSlash cNP

/-- (`N` ⇒ `NP`) + `S[dcl]\NP` ⇒ `S[dcl]`; a word with a quote, a backslash, a newline, a Latin-1
    letter, a character of the basic plane above the surrogates and an emoji (a surrogate pair in
    the output); a token with several attributes -/
private def exTree : Tree :=
  .bin cS (lit "ba") (lit "<") false
    (.un cNP (lit "lex") (lit "<un>")
      (.leaf cN [(lit "word", [34, 65, 92, 10, 233, 65279, 128512]), (lit "lemma", lit "a/b")] (lit "lex") (lit "<lex>")))
    (.leaf cVP (Token.ofWord (lit "x")) (lit "lex") (lit "<lex>"))

/-- two sentences: one with two parses (scores -37/64 and -1/64), one failed (a placeholder leaf, `-inf`) -/
private def exBatch : List (List (Tree × Option Int)) :=
  [[(exTree, some (-37)), (.leaf cN (Token.ofWord (lit "y")) (lit "lex") (lit "<lex>"), some (-1))],
   [(.leaf cNP (Token.ofWord (lit "fail")) (lit "lex") (lit "<lex>"), none)]]

example : BatchOK exBatch := by decide +kernel

/-- the reader run (in the kernel) on the printed text of the batch -/
example : Read.readJsonOutput (jsonText exBatch) = some (expected 1 exBatch) := by decide +kernel

/-- the same through the theorem -/
example : Read.readJsonOutput (jsonText exBatch) = some (expected 1 exBatch) :=
  json_text_decode exBatch (by decide +kernel)

/-- general JSON the printer never writes: other blanks, `\/`, upper-case hex, a surrogate pair, an
    integer part with several digits -/
example : Read.readJsonOutput (lit "\t{ \"7\" :[{\"word\":\"a\\/\\u00E9\\uD83D\\ude00\" ,\r\n \"log_prob\": -12.25}] }\n")
    = some [(7, [(.leaf [(lit "word", [97, 47, 233, 128512])], some (-784))])] := by decide +kernel

end examples

end Depccg.C07Json
