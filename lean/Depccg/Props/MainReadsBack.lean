/-
  What the program writes can be read back, for `--format json`, `--format xml`,
  `--format jigg_xml`: the theorems.
  Statements: `Depccg/Props/MainReadsBackDefs.lean`; lemmas: `Depccg/Proofs/MainReadsBackLemmas.lean`.
-/
import Depccg.Proofs.MainReadsBackLemmas

namespace Depccg.CliProps
open Depccg Str Search GlueRun Lazy Print Cli LazyProps Xml

theorem main_json_reads_back : MainJsonReadsBackStatement := fun results text hb h => by
  simp only [printText] at h
  cases h
  exact mrb_json_decode_nl _ hb

theorem main_xml_reads_back : MainXmlReadsBackStatement := fun results text hk h => by
  simp only [printText] at h
  obtain ⟨t, ht, rfl⟩ := mrb_addNewline h
  exact mrb_xml_decode_nl _ t (mrb_keys_trees hk) ht

theorem main_jigg_reads_back : MainJiggReadsBackStatement := fun ja results text hk h => by
  cases ja with
  | true => exact mrb_jigg true results text hk (by simpa only [if_true, printText] using h)
  | false =>
    exact mrb_jigg false results text hk (by simpa only [Bool.false_eq_true, if_false, printText] using h)

theorem program_tokens_keys_ok : ProgramTokensKeysOKStatement := mrb_tokensOfLine

theorem placeholder_keys_ok : PlaceholderKeysOKStatement := mrb_placeholder

end Depccg.CliProps
