/-
  The score text `'{:.5e}'.format(k / 64)` (`Cli.fmt5e`) is the correctly rounded six-significant-
  digit decimal of the exact value; statements in `Props/NumFmtDefs.lean`, lemmas in
  `Proofs/NumFmtLemmas.lean`.
-/
import Depccg.Proofs.NumFmtLemmas

namespace Depccg.NumProps
open Depccg Str Cli

theorem fmt5e_correct : Fmt5eCorrectStatement := by
  intro k hk
  have ⟨q1, q2⟩ := nf_qOf_bounds (k.natAbs * 15625) (by omega)
  have ⟨e1, e2, e3, _⟩ := nf_err_spec k hk
  exact ⟨qOf (k.natAbs * 15625), eOf (k.natAbs * 15625), nf_dec5e_fmt5e k hk, q1, q2, e1, e2, e3⟩

theorem fmt5e_zero : Fmt5eZeroStatement := by
  show fmt5e 0 = lit "0.00000e+00"
  rfl

theorem fmt5e_exact : Fmt5eExactStatement := by
  intro k hk hlen q e h
  rw [nf_dec5e_fmt5e k hk] at h
  simp only [Option.some.injEq, Prod.mk.injEq, true_and] at h
  obtain ⟨rfl, rfl⟩ := h
  exact (nf_err_spec k hk).2.2.2 hlen

theorem fmt5e_monotone : Fmt5eMonotoneStatement := by
  intro a b ha hab qa ea qb eb h1 h2
  rw [nf_dec5e_fmt5e a (by omega)] at h1
  rw [nf_dec5e_fmt5e b (by omega)] at h2
  simp only [Option.some.injEq, Prod.mk.injEq] at h1 h2
  obtain ⟨_, rfl, rfl⟩ := h1
  obtain ⟨_, rfl, rfl⟩ := h2
  exact nf_mono (by omega) (by omega)

theorem fmt5e_neg : Fmt5eNegStatement := by
  intro k hk
  have h1 : (-k).natAbs = k.natAbs := Int.natAbs_neg k
  have h2 : (-k) < 0 := by omega
  have h3 : ¬ k < 0 := by omega
  have h4 : k.natAbs * 15625 ≠ 0 := by omega
  unfold fmt5e
  simp only [h1, h2, h3, h4, if_true, if_false, List.nil_append, List.cons_append, List.append_assoc]

theorem fmt8_neg : Fmt8NegStatement := by
  intro k hk
  have h1 : (-k).natAbs = k.natAbs := Int.natAbs_neg k
  have h2 : (-k) < 0 := by omega
  have h3 : ¬ k < 0 := by omega
  unfold fmt8
  simp only [h1, h2, h3, if_true, if_false, List.nil_append, List.cons_append, List.append_assoc]

example : fmt8 (-96) = lit "-1.50000000" := by decide +kernel

example : fmt5e (-96) = lit "-1.50000e+00" := by decide +kernel
example : fmt5e 1 = lit "1.56250e-02" := by decide +kernel
example : fmt5e 64 = lit "1.00000e+00" := by decide +kernel
example : fmt5e 640016 = lit "1.00002e+04" := by decide +kernel       -- 10000.25: tie, to even
example : fmt5e 640048 = lit "1.00008e+04" := by decide +kernel       -- 10000.75: tie, to even
example : fmt5e 63999968 = lit "1.00000e+06" := by decide +kernel     -- 999999.5: carry into the exponent
example : fmt5e (-63999968) = lit "-1.00000e+06" := by decide +kernel
example : fmt5e (64 * 10 ^ 100) = lit "1.00000e+100" := by decide +kernel   -- a three-digit exponent
example : dec5e (fmt5e (64 * 10 ^ 100)) = some (false, 100000, 100) := by decide +kernel
example : dec5e (fmt5e 63999968) = some (false, 100000, 6) := by decide +kernel
example : dec5e (fmt5e (-1)) = some (true, 156250, -2) := by decide +kernel

end Depccg.NumProps
