/-
  The four one-line-per-tree formats (`auto`, `auto_extended`, `ptb`, `ja`) at the level of the whole
  output: the text `print_` emits — per tree the line `ID=<sentence>, log probability=<score>` and the
  tree line — is split by a reader written in Lean (`Read.decLineDoc`: header line, tree line, …,
  trailing empty lines) into (sentence number, score text, tree line) records, one per returned tree,
  in order; the tree lines are exactly the texts the per-line theorems speak of (`auto_roundtrip`,
  `autoext_decode`, `ptb_roundtrip`, `ja_roundtrip_partial`).
-/
import Depccg.Props.CliDefs
import Depccg.Props.FileDefs
import Depccg.Read.LineDoc

namespace Depccg.CliProps
open Depccg Str Search GlueRun Lazy Print Cli LazyProps Read

/-- record `r` is what the printer wrote for the numbered, scored tree `p` -/
def LineRecOf (fmt : Tree → Except Err Str) (p : Nat × (Tree × Str)) (r : Nat × Str × Str) : Prop :=
  r.1 = p.1 ∧ r.2.1 = p.2.2 ∧ fmt p.2.1 = .ok r.2.2

/-- for any formatter whose lines and score texts hold no newline -/
def LineDocDecodeStatement : Prop :=
  ∀ (fmt : Tree → Except Err Str) (batch : List (List (Tree × Str))) (text : Str),
    (∀ ts ∈ batch, ∀ p ∈ ts, 10 ∉ p.2 ∧ ∀ s, fmt p.1 = .ok s → 10 ∉ s) →
    toStringLines fmt false batch = .ok text →
    ∃ recs, decLineDoc text = some recs ∧ FileProps.Forall2 (LineRecOf fmt) (numbered batch) recs

/-- the one-line formats of the program -/
def lineFmt : Fmt → Bool
  | .auto => true | .autoExt => true | .ptb => true | .ja => true
  | _ => false

/-- the program's output in a one-line format: one record per returned tree, in order, numbered by
    sentence, with the score text and the tree's line (the lines hold no newline when no token
    attribute and no category text does) -/
def MainLineReadsBackStatement : Prop :=
  ∀ (f : Fmt) (results : List SentResult) (text : Str), lineFmt f = true →
    (∀ r ∈ results, ∀ ts ∈ scored r, ∀ s, f.fn ts.1 = .ok s → 10 ∉ s) →
    printText f results = .ok text →
    ∃ recs, decLineDoc text = some recs ∧
      FileProps.Forall2 (LineRecOf f.fn) (numbered (results.map scored)) recs

end Depccg.CliProps
