/-
  C07, the two Prolog formats: the decoder statements. `Read.decPrologEn` / `Read.decPrologJa`
  (Depccg/Read/Prolog.lean) are independent readers of the printed Prolog terms; they recover from
  every output the sentence numbers and, per derivation, the view of the tree defined here by
  recursion on the tree (not on the text): the tree shape, every category as the format spells
  it, the rule functors, the extra category arguments of the English rules, and the leaf fields.
-/
import Depccg.Read.Prolog
import Depccg.Print.More
import Depccg.Props.TextDefs

namespace Depccg.C07
open Depccg Str Print Read TextProps

/-! ### what the formats carry of a tree -/

/-- the rule functors of the Japanese format (`ja_combinator_table`, restated) -/
def jaRuleTable : List (Str × Str) :=
  [(lit "SSEQ", lit "sseq"), (lit ">", lit "fa"), (lit "<", lit "ba"), (lit ">B", lit "fc"),
   (lit "<B1", lit "bc1"), (lit "<B2", lit "bc2"), (lit "<B3", lit "bc3"), (lit "<B4", lit "bc4"),
   (lit ">Bx1", lit "fx1"), (lit ">Bx2", lit "fx2"), (lit ">Bx3", lit "fx3"),
   (lit "ADNext", lit "adnext"), (lit "ADNint", lit "adnint"), (lit "ADV0", lit "adv0"),
   (lit "ADV1", lit "adv1"), (lit "ADV2", lit "adv2"), (lit "OTHER", lit "other")]

/-- the five quoted atoms of a Japanese leaf: surface (default: the word), base form, the part of
    speech tags joined by `/` (a single `*` when all four are `*`), inflection form and type -/
def jaFields (tok : Token) : List Str :=
  let g (k : String) := Token.getD tok (lit k) (lit "*")
  let tags := [g "pos", g "pos1", g "pos2", g "pos3"]
  [Token.getD tok (lit "surf") (Token.getD tok (lit "word") []), g "base",
   if tags.all (· == lit "*") then lit "*" else joinSep cSlash tags,
   g "inflectionForm", g "inflectionType"]

/-- what `to_prolog_ja` carries of a tree -/
def viewPrologJa : Tree → PView
  | .leaf c tok _ _ => .leaf (prologJaCat c) (jaFields tok)
  | .un c _ y ch => .node ((Dict.get? jaRuleTable y).getD []) (prologJaCat c) [] [viewPrologJa ch]
  | .bin c _ y _ l r =>
    .node ((Dict.get? jaRuleTable y).getD []) (prologJaCat c) [] [viewPrologJa l, viewPrologJa r]

/-- the rule functors of the English format (`_op_mapping` without the parenthesis, restated):
    `fx` prints as `fc`, `bx` as `bxc`, `lp` as an `lx` wrapper, `conj2` as a `conj` wrapper -/
def enFunctorTable : List (Str × Str) :=
  [(lit "fa", lit "fa"), (lit "ba", lit "ba"), (lit "fx", lit "fc"), (lit "fc", lit "fc"),
   (lit "bx", lit "bxc"), (lit "gfc", lit "gfc"), (lit "gbx", lit "gbx"), (lit "rp", lit "rp"),
   (lit "lp", lit "lx"), (lit "conj", lit "conj"), (lit "conj2", lit "conj")]

/-- the five quoted atoms of an English leaf -/
def enFields (tok : Token) : List Str :=
  let g (k : String) := Token.getD tok (lit k) (lit "XX")
  [Token.getD tok (lit "word") [], g "lemma", g "pos", g "chunk", g "entity"]

/-- what `to_prolog_en` carries of a tree. The nesting of the printed terms is mirrored:
    * a unary node is `lx(cat, childcat, child)`;
    * `conj` is `conj(cat, leftcat, l, r)` with `leftcat` the result side of `cat`;
    * `conj2` is `conj(cat, rc\rc, conj(rc\rc, rc, l, r))` with `rc` the right child's category;
    * `lp` is `lx(cat, rc, lp(rc, l, r))`;
    * every other binary rule is `functor(cat, l, r)`. -/
def viewPrologEn : Tree → PView
  | .leaf c tok _ _ => .leaf (prologCat c) (enFields tok)
  | .un c _ _ ch => .node (lit "lx") (prologCat c) [prologCat ch.cat] [viewPrologEn ch]
  | .bin c os _ _ l r =>
    let f := (Dict.get? enFunctorTable os).getD []
    let rc := prologCat r.cat
    if os = lit "conj2" then
      .node f (prologCat c) [rc ++ 92 :: rc]
        [.node (lit "conj") (rc ++ 92 :: rc) [rc] [viewPrologEn l, viewPrologEn r]]
    else if os = lit "conj" then
      .node f (prologCat c) (match c with | .fn cl _ _ => [prologCat cl] | .atom .. => [])
        [viewPrologEn l, viewPrologEn r]
    else if os = lit "lp" then
      .node f (prologCat c) [rc] [.node (lit "lp") rc [] [viewPrologEn l, viewPrologEn r]]
    else .node f (prologCat c) [] [viewPrologEn l, viewPrologEn r]

/-! ### the hypotheses -/

/-- the parenthesis depth after a piece of text; `none` when a `)` closes nothing or a `,` stands
    outside all parentheses -/
def argDepth : Nat → Str → Option Nat
  | d, [] => some d
  | d, c :: cs =>
    if c = 44 ∧ d = 0 then none
    else if c = 40 then argDepth (d + 1) cs
    else if c = 41 then
      match d with
      | 0 => none
      | d' + 1 => argDepth d' cs
    else argDepth d cs

/-- a text that can stand as a category argument: balanced parentheses, every comma inside
    parentheses. (Blanks, newlines, quotes are allowed.) -/
def ArgText (s : Str) : Prop := argDepth 0 s = some 0

/-- a text that can stand as an extra category argument on the functor's line: an argument text
    that does not start with a blank or a newline (after the `,` the blanks are skipped and a newline
    announces a sub-term) -/
def ExtraText (s : Str) : Prop := ArgText s ∧ s.head? ≠ some 32 ∧ s.head? ≠ some 10

/-- a quoted value survives the quoting iff it does not end with a backslash: the printers
    escape quotes but not backslashes, so a final backslash would swallow the closing quote
    (`'a\'`). Backslashes elsewhere are harmless (`'a\b'`, and `\'` is printed `\\'`, which reads
    back as `\'`). -/
def NoTrailingBackslash (v : Str) : Prop := v.getLast? ≠ some 92

/-- a value printed between quotes WITHOUT escaping (English `pos`, `chunk`, `entity`) must
    moreover contain no quote -/
def RawQuotable (v : Str) : Prop := 39 ∉ v ∧ NoTrailingBackslash v

/-- Japanese: every category spelling is an argument text -/
def JaCatOK (c : Cat) : Prop := ArgText (prologJaCat c)

/-- Japanese: the five leaf fields do not end with a backslash -/
def JaTokOK (tok : Token) : Prop := ∀ f ∈ jaFields tok, NoTrailingBackslash f

/-- English: the spelling of every node category can stand as an extra argument (it does, for
    the child of a unary node and the right child of `conj2`/`lp`), and so can the spelling of its
    result side (the `leftcat` of `conj`) -/
def EnCatOK (c : Cat) : Prop :=
  ExtraText (prologCat c) ∧
  match c with
  | .fn l _ _ => ExtraText (prologCat l)
  | .atom .. => True

/-- English: word and lemma (escaped by the printer) do not end with a backslash; pos, chunk and
    entity (not escaped) moreover contain no quote -/
def EnTokOK (tok : Token) : Prop :=
  let g (k : String) := Token.getD tok (lit k) (lit "XX")
  NoTrailingBackslash (Token.getD tok (lit "word") []) ∧ NoTrailingBackslash (g "lemma") ∧
  RawQuotable (g "pos") ∧ RawQuotable (g "chunk") ∧ RawQuotable (g "entity")

/-- a character that is harmless anywhere in a category spelling -/
def PlainCh (ch : Nat) : Prop := ch ≠ 32 ∧ ch ≠ 10 ∧ ch ≠ 44 ∧ ch ≠ 40 ∧ ch ≠ 41

/-- a sufficient condition for `EnCatOK` on the category value (`pl_enCatOK_of_plain`): atom bases
    and feature texts free of blanks, newlines, commas and parentheses, slashes likewise -/
def PlainCatEn : Cat → Prop
  | .atom b f => (∀ ch ∈ b, PlainCh ch) ∧ (∀ ch ∈ f.str, PlainCh ch)
  | .fn l s r => PlainCatEn l ∧ PlainCh s ∧ PlainCatEn r

/-- a sufficient condition for `JaCatOK` on the category value (`pl_jaCatOK_of_plain`): atom bases
    and the three feature values free of blanks, newlines, commas and parentheses, slashes likewise -/
def PlainCatJa : Cat → Prop
  | .atom b (.tri _ v1 _ v2 _ v3) =>
    (∀ ch ∈ b, PlainCh ch) ∧ (∀ ch ∈ v1, PlainCh ch) ∧ (∀ ch ∈ v2, PlainCh ch) ∧ (∀ ch ∈ v3, PlainCh ch)
  | .atom b (.un _) => ∀ ch ∈ b, PlainCh ch
  | .fn l s r => PlainCatJa l ∧ PlainCh s ∧ PlainCatJa r

/-! ### the statements -/

/-- every English Prolog output reads back to the sentence numbers and views of the batch -/
def PrologEnDecodeStatement : Prop :=
  ∀ (batch : List (List Tree)) (text : Str),
    (∀ ts ∈ batch, ∀ t ∈ ts, AllCats EnCatOK t ∧ AllToks EnTokOK t) →
    prologEn batch = .ok text →
    decPrologEn text = some ((numbered batch).map fun p => (p.1, viewPrologEn p.2))

/-- every Japanese Prolog output reads back to the sentence numbers and views of the batch -/
def PrologJaDecodeStatement : Prop :=
  ∀ (batch : List (List Tree)) (text : Str),
    (∀ ts ∈ batch, ∀ t ∈ ts, AllCats JaCatOK t ∧ AllToks JaTokOK t) →
    prologJa batch = .ok text →
    decPrologJa text = some ((numbered batch).map fun p => (p.1, viewPrologJa p.2))

/-- two batches with the same English output have the same numbered views -/
def PrologEnInjectiveStatement : Prop :=
  ∀ (b b' : List (List Tree)) (text : Str),
    (∀ ts ∈ b, ∀ t ∈ ts, AllCats EnCatOK t ∧ AllToks EnTokOK t) →
    (∀ ts ∈ b', ∀ t ∈ ts, AllCats EnCatOK t ∧ AllToks EnTokOK t) →
    prologEn b = .ok text → prologEn b' = .ok text →
    (numbered b).map (fun p => (p.1, viewPrologEn p.2)) = (numbered b').map (fun p => (p.1, viewPrologEn p.2))

/-- two batches with the same Japanese output have the same numbered views -/
def PrologJaInjectiveStatement : Prop :=
  ∀ (b b' : List (List Tree)) (text : Str),
    (∀ ts ∈ b, ∀ t ∈ ts, AllCats JaCatOK t ∧ AllToks JaTokOK t) →
    (∀ ts ∈ b', ∀ t ∈ ts, AllCats JaCatOK t ∧ AllToks JaTokOK t) →
    prologJa b = .ok text → prologJa b' = .ok text →
    (numbered b).map (fun p => (p.1, viewPrologJa p.2)) = (numbered b').map (fun p => (p.1, viewPrologJa p.2))

end Depccg.C07
