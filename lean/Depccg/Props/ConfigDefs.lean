/-
  C14 / C17 for what the program actually parses with: `read_params` (Config.lean, compared with
  the real function on in-memory configurations) hands out exactly the configured unary targets in
  file order, a seen-rule gate that passes a pair iff its `[X]`/`[nb]`-erased form is the erased
  form of a configured pair, the configured root categories in order; the two disable flags switch
  the filters off; an empty `seen_rules` list switches the gate off as well (the code turns the
  empty set into `None`); and it fails only on a string that is not a category.
-/
import Depccg.Config
import Depccg.Props.C14Defs

namespace Depccg.ConfigProps
open Depccg Str Config

/-- both strings of a pair of the file, parsed -/
def parsePair (p : Str × Str) : Except Err (Cat × Cat) :=
  match Cat.parse p.1 with
  | .error e => .error e
  | .ok a =>
    match Cat.parse p.2 with
    | .error e => .error e
    | .ok b => .ok (a, b)

/-- the targets configured for `x`, in file order -/
def targetsOf (ps : List (Cat × Cat)) (x : Cat) : List Cat :=
  (ps.filter fun q => Cat.pyEq q.1 x).map (·.2)

/-- the table is built iff every string parses, and then looking a category up gives the targets
    of all its lines in file order, wherever in the file they stand -/
def UnaryTableStatement : Prop :=
  ∀ (pairs : List (Str × Str)),
    (∀ tbl, unaryTable [] pairs = .ok tbl →
      ∃ ps, Cli.mapExcept parsePair pairs = .ok ps ∧ ∀ x, (C14.lookup tbl x).getD [] = targetsOf ps x) ∧
    (∀ ps, Cli.mapExcept parsePair pairs = .ok ps → ∃ tbl, unaryTable [] pairs = .ok tbl)

/-- the English unary function of the program returns the configured targets, in file order -/
def ProgramUnaryEnStatement : Prop :=
  ∀ (p : Params) (dd ds : Bool) (L : Loaded) (ps : List (Cat × Cat)) (x : Cat),
    readParams p dd ds = .ok L → Cli.mapExcept parsePair p.unaryRules = .ok ps →
    (En.applyUnary L.table x).map (·.cat) = targetsOf ps x

/-- the Japanese one, whenever it returns -/
def ProgramUnaryJaStatement : Prop :=
  ∀ (p : Params) (dd ds : Bool) (L : Loaded) (ps : List (Cat × Cat)) (x : Cat) (rs : List RuleRes),
    readParams p dd ds = .ok L → Cli.mapExcept parsePair p.unaryRules = .ok ps →
    Ja.applyUnary L.table x = .ok rs → rs.map (·.cat) = targetsOf ps x

/-- the gate of the English binary function of the program: with a non-empty `seen_rules` list and
    the filter enabled, a pair gets the unrestricted result iff its erased form is the erased form
    of a configured pair, and nothing otherwise -/
def ProgramGateEnStatement : Prop :=
  ∀ (p : Params) (dd : Bool) (L : Loaded) (S : List (Cat × Cat)) (x y sx sy : Cat),
    readParams p dd false = .ok L → Cli.mapExcept seenPair p.seenRules = .ok S → p.seenRules ≠ [] →
    Cat.clear Config.nbX x = .ok sx → Cat.clear Config.nbX y = .ok sy →
    En.applyBinary L.seen x y = if C14.inSeen S sx sy then En.applyBinary none x y else .ok []

/-- the Japanese gate compares the raw pair with the erased configured pairs -/
def ProgramGateJaStatement : Prop :=
  ∀ (p : Params) (dd : Bool) (L : Loaded) (S : List (Cat × Cat)) (x y : Cat),
    readParams p dd false = .ok L → Cli.mapExcept seenPair p.seenRules = .ok S → p.seenRules ≠ [] →
    Ja.applyBinary L.seen x y = if C14.inSeen S x y then Ja.applyBinary none x y else .ok []

/-- no filter: `--disable-seen-rules`, or an empty `seen_rules` list -/
def GateOffStatement : Prop :=
  ∀ (p : Params) (dd ds : Bool) (L : Loaded), readParams p dd ds = .ok L →
    (ds = true ∨ p.seenRules = []) → L.seen = none

/-- `--disable-category-dictionary` -/
def DictOffStatement : Prop :=
  ∀ (p : Params) (ds : Bool) (L : Loaded), readParams p true ds = .ok L → L.catDict = none

/-- the dictionary and the root categories are the configured ones, in order -/
def DictRootsStatement : Prop :=
  ∀ (p : Params) (dd ds : Bool) (L : Loaded), readParams p dd ds = .ok L →
    Cli.mapExcept Cat.parse p.targets = .ok L.roots ∧
    (dd = false → Cli.mapExcept dictEntry p.catDict = .ok (L.catDict.getD []) ∧ L.catDict.isSome)

/-- `read_params` fails only on a string that is not a category: when every string it reads parses,
    it returns -/
def ReadParamsTotalStatement : Prop :=
  ∀ (p : Params) (dd ds : Bool),
    (∀ q ∈ p.unaryRules, (∃ c, Cat.parse q.1 = .ok c) ∧ (∃ c, Cat.parse q.2 = .ok c)) →
    (dd = false → ∀ q ∈ p.catDict, ∀ s ∈ q.2, ∃ c, Cat.parse s = .ok c) →
    (ds = false → ∀ q ∈ p.seenRules, (∃ c, Cat.parse q.1 = .ok c) ∧ (∃ c, Cat.parse q.2 = .ok c)) →
    (∀ s ∈ p.targets, ∃ c, Cat.parse s = .ok c) →
    ∃ L, readParams p dd ds = .ok L

end Depccg.ConfigProps
