/-
  C19 at the level of the program. Statements in `Depccg/Props/MainTotalDefs.lean` (unchanged) and,
  corrected, in `Depccg/Props/MainTotalDefs2.lean`; helper lemmas in
  `Depccg/Proofs/MainTotalLemmas.lean`.

  Both statements of `MainTotalDefs.lean` are false as written, in one corner and for the English
  Prolog format only (`results_render_original_false`, `main_total_original_false`): the rule
  `conjunction2` of en.py tests `str(y) == "NP\\NP"` and returns `y` under the label `conj`; the
  English Prolog printer reads `.left` of the category of every `conj` node. An *atom* named `NP\NP`
  prints that text and has no `.left` (`AttributeError`). `Category.parse` never builds such an atom,
  but the caller's category list (`ResultsRenderStatement`) and the unary table (both statements) are
  arbitrary category values.

  * `ResultsRenderStatement`: categories `[conj, «NP\NP»]`, root `«NP\NP»`, two words: the only
    parse is `conj «NP\NP» ⇒ «NP\NP»` by `conjunction2`.
  * `MainTotalStatement`: tagger categories `, conj NP` (parsed from text), root `NP`, the line
    `, and Mary`, unary table `NP ⇒ «NP\NP»`, `«NP\NP» ⇒ NP`: the only parses go through
    `conj «NP\NP» ⇒ «NP\NP»`; `mainText … = AttributeError` under `--format prolog`.

  With well-formed categories and unary-table targets (`C05.WF`, as in `OutputWF`) for the English
  Prolog format — nothing more for the six record formats and the Japanese Prolog format — both
  hold: `results_render_partial`, `main_total_partial`.
-/
import Depccg.Props.MainTotalDefs
import Depccg.Props.MainTotalDefs2
import Depccg.Proofs.MainTotalLemmas

namespace Depccg.CliProps
open Depccg Str Search GlueRun Lazy Print Cli LazyProps

/-- every result of the lazy run over a shipped grammar renders: words everywhere, Japanese
    symbols known to the Japanese Prolog printer, and — over well-formed categories and table —
    English labels acceptable to the English Prolog printer -/
theorem results_render_partial : ResultsRenderStatement' := mt_results_render

/-- the program prints a text, whatever the input lines and the scores; for `--format prolog`
    under the English program the tagger's categories and the unary table are well-formed -/
theorem main_total_partial : MainTotalStatement' := mt_main_total

/-! ### the two statements of `MainTotalDefs.lean` are false as written -/

namespace MtCounter

def cConj : Cat := .atom (lit "conj") (.un none)
/-- the atom whose name is the five characters `NP\NP` -/
def cZ : Cat := .atom (lit "NP\\NP") (.un none)
def cNP : Cat := .atom (lit "NP") (.un none)
def cComma : Cat := .atom (lit ",") (.un none)
def cfg : Cfg := { penalty := 6, pruning := 50, nbest := 1, maxStep := 10000 }

/-- it prints like the functor, so `conjunction2` takes it -/
example : cZ.str = (Cat.fn cNP cBSlash cNP).str := by decide
example : En.applyBinary none cConj cZ =
    .ok [⟨.fn cZ cBSlash cZ, lit "conj", lit "<Φ>", true⟩, ⟨cZ, lit "conj", lit "<Φ>", true⟩] := by decide +kernel

/-! #### `ResultsRenderStatement` -/

def x2 : SentIn :=
  { tokens := [Token.ofWord (lit "and"), Token.ofWord (lit "x")], tags := [[0, -64], [-64, 0]],
    deps := [[0, 0, 0], [0, 0, 0]], passes := [[true, false], [true, false]] }

def tree2 : Tree :=
  .bin cZ (lit "conj") (lit "<Φ>") true
    (.leaf cConj (Token.ofWord (lit "and")) (lit "lex") (lit "<lex>"))
    (.leaf cZ (Token.ofWord (lit "x")) (lit "lex") (lit "<lex>"))

theorem run2 : (sentenceL pickHeap (OutputWF.shipped true none []) (addRoots [cConj, cZ] [cZ]).2 cfg none
    (GlueRun.init [cConj, cZ] [cZ]) x2).1 = .ok (.parsed [(tree2, 0)]) := by decide +kernel

/-- the printer fails on it -/
example : prologEn [[tree2]] = .error .attributeError := by decide +kernel

end MtCounter

open MtCounter in
theorem results_render_original_false : ¬ ResultsRenderStatement := by
  intro h
  have h1 := h true none [] [cConj, cZ] [cZ] [] cfg none x2 (.parsed [(tree2, 0)]) (by decide)
    (by unfold LexOK; decide)
    (by
      intro tok ht
      simp only [x2, List.mem_cons, List.not_mem_nil, or_false] at ht
      rcases ht with rfl | rfl <;> exact mt_hasWord_ofWord _)
    run2 (tree2, scoreText (some 0)) (by simp [scored])
  have h2 : cZ.isFunctor = true := (h1.2.1 rfl).2.1 rfl
  exact absurd h2 (by decide)

namespace MtCounter

/-! #### `MainTotalStatement` -/

def table3 : List (Cat × List Cat) := [(cNP, [cZ]), (cZ, [cNP])]

def o3 : Opts where
  cfg := cfg
  maxLength := 250
  procs := 1
  rootCats := lit "NP"
  piped := false
  format := .prologEn

def scores3 : List Scores :=
  [{ tags := [[0, -64, -64], [-64, 0, -64], [-64, -64, 0]], deps := [[0, 0, 0, 0], [0, 0, 0, 0], [0, 0, 0, 0]],
     passes := [[true, false], [true, false], [true, false]] }]

def doc3 : List (List Token) := [[Token.ofWord (lit ","), Token.ofWord (lit "and"), Token.ofWord (lit "Mary")]]

theorem main3 : mainText (OutputWF.shipped true none table3) o3 [lit ", and Mary"] [lit ",", lit "conj", lit "NP"]
    scores3 = .error .attributeError := by decide +kernel

/-- the same run printed in the AUTO format: the node `NP\NP` over `conj` and `NP\NP` is there -/
example : mainText (OutputWF.shipped true none table3) { o3 with format := .auto } [lit ", and Mary"]
    [lit ",", lit "conj", lit "NP"] scores3 =
    .ok (lit ("ID=1, log probability=-0.18750000\n(<T NP 0 2> (<L , XX XX , ,>) (<T NP 0 1> (<T NP\\NP 0 2> " ++
      "(<L conj XX XX and conj>) (<T NP\\NP 0 1> (<L NP XX XX Mary NP>) ) ) ) )\n\n")) := by decide +kernel

end MtCounter

open MtCounter in
theorem main_total_original_false : ¬ MainTotalStatement := by
  intro h
  obtain ⟨text, ht⟩ := h true none table3 o3 [lit ", and Mary"] [lit ",", lit "conj", lit "NP"] scores3
    [cNP] [cComma, cConj, cNP] doc3 (by decide +kernel) (by decide +kernel) (by decide +kernel) (by decide)
    (by
      intro x hx
      simp only [zipSents, doc3, scores3, List.mem_cons, List.not_mem_nil, or_false] at hx
      subst hx
      unfold LexOK
      decide)
    rfl
  rw [main3] at ht
  cases ht

end Depccg.CliProps
