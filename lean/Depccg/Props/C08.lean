import Depccg.Read.Text
import Depccg.Print.Text
