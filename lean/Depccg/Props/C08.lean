/-
  C08  AUTO text written by depccg reads back to the same tree.
  Property theorems only; the statements are in Depccg/Props/C08Defs.lean (with the shared
  definitions of Depccg/Props/TextDefs.lean), helper lemmas in Depccg/Proofs/C08Lemmas.lean.
-/
import Depccg.Props.C08Defs
import Depccg.Proofs.C08Lemmas

namespace Depccg.C08
open Depccg Str Print Read TextProps

/-- printing never fails on trees whose tokens have a word -/
theorem auto_total : AutoTotalStatement := fun t h => ⟨autoOf_total t h, conllOf_total t h⟩

/-- `autoImage` keeps categories, shape and head flags -/
theorem auto_image_skel : AutoImageSkelStatement := fun _ _ _ h => autoImage_skel h

/-- printing the tree that was read reproduces the line exactly -/
theorem auto_reprint : AutoReprintStatement := fun _ _ _ _ _ hs hi => autoOf_image hs hi

/-- reading a printed AUTO line yields the image of the tree, and the reader's token list is the
    token list of that tree -/
theorem auto_roundtrip : AutoRoundtripStatement := by
  intro lang t s hc ho ht hs
  obtain ⟨t', hi⟩ := autoImage_total lang t hc ho ht
  exact ⟨t', hi, readAutoLine_printed lang t t' s hc ht hs hi⟩

/-- the last conll column, joined by blanks, is the AUTO line -/
theorem conll_fragments : ConllFragmentsStatement :=
  fun t s c htok hpos hcat hs hc => conll_fragments_aux t s c htok hpos hcat hs hc

/-- every well-formed category is left alone by the CCGbank repair -/
theorem fixcat_id : FixCatIdStatement := fun c hc => fixCat_of_endsOK (endsOK_str c hc)

/-! ### the hypotheses are satisfiable -/

section examples

private def cNP : Cat := .atom (lit "NP") (.un none)
private def cS : Cat := .atom (lit "S") (.un (some (lit "dcl")))
private def cVP : Cat := .fn cS cBSlash cNP

/-- `NP` "(" and `S[dcl]\NP` "runs" under `S[dcl]`, labelled `ba` -/
private def exTree : Tree :=
  .bin cS (lit "ba") (lit "<") false
    (.leaf cNP [(lit "word", lit "("), (lit "pos", lit "NN")] (lit "lex") (lit "<lex>"))
    (.leaf cVP (Token.ofWord (lit "runs")) (lit "lex") (lit "<lex>"))

private theorem wfNP : C05.WF cNP :=
  ⟨⟨by decide, by decide⟩, trivial, fun _ => rfl⟩

private theorem wfS : C05.WF cS :=
  ⟨⟨by decide, by decide⟩, ⟨⟨by decide, by decide⟩, by decide⟩, by decide⟩

private theorem wfVP : C05.WF cVP := ⟨wfS, by decide, wfNP⟩

private theorem okNP : CatOK cNP := ⟨wfNP, by decide, by decide⟩
private theorem okS : CatOK cS := ⟨wfS, by decide, by decide⟩
private theorem okVP : CatOK cVP := ⟨wfVP, by decide, by decide⟩

private theorem exCats : AllCats CatOK exTree := ⟨okS, okNP, okVP⟩

private theorem exSys : AllCats (OneSystem .en) exTree := ⟨trivial, trivial, trivial, trivial⟩

private theorem exToks : AllToks TokOK exTree := by
  refine ⟨⟨⟨_, rfl⟩, ?_⟩, ⟨⟨_, rfl⟩, ?_⟩⟩ <;> (simp only [PlainWord]; decide)

/-- the printed line, evaluated -/
private theorem exLine :
    autoOf exTree = .ok (lit "(<T S[dcl] 1 2> (<L NP NN NN -LRB- NP>) (<L S[dcl]\\NP XX XX runs S[dcl]\\NP>) )") := by
  decide +kernel

/-- the image: the bracket word in its escaped spelling, reduced tokens, the guessed label -/
private def exImage : Tree :=
  .bin cS (lit "ba") (lit "<") false
    (Tree.mkTerminal (autoToken (lit "-LRB-") (lit "NN") (lit "NN")) cNP)
    (Tree.mkTerminal (autoToken (lit "runs") (lit "XX") (lit "XX")) cVP)

private theorem exImage_eq : autoImage .en exTree = .ok exImage := by decide +kernel

/-- the read-back, evaluated … -/
example : readAutoLine .en
    (lit "(<T S[dcl] 1 2> (<L NP NN NN -LRB- NP>) (<L S[dcl]\\NP XX XX runs S[dcl]\\NP>) )") =
    .ok (exImage, exImage.tokens) := by decide +kernel

/-- … and by the theorem -/
example : ∃ t', autoImage .en exTree = .ok t' ∧
    readAutoLine .en
      (lit "(<T S[dcl] 1 2> (<L NP NN NN -LRB- NP>) (<L S[dcl]\\NP XX XX runs S[dcl]\\NP>) )") =
      .ok (t', t'.tokens) :=
  auto_roundtrip .en exTree _ exCats exSys exToks exLine

/-- printing the image gives the same line, by the theorem and by evaluation -/
example : autoOf exImage =
    .ok (lit "(<T S[dcl] 1 2> (<L NP NN NN -LRB- NP>) (<L S[dcl]\\NP XX XX runs S[dcl]\\NP>) )") :=
  auto_reprint .en exTree exImage _ exToks exLine exImage_eq

example : autoOf exImage =
    .ok (lit "(<T S[dcl] 1 2> (<L NP NN NN -LRB- NP>) (<L S[dcl]\\NP XX XX runs S[dcl]\\NP>) )") := by
  decide +kernel

example : skel exImage = skel exTree := auto_image_skel .en exTree exImage exImage_eq

/-- the conll rows of the tree, evaluated; the last columns joined by blanks are the line -/
private theorem exConll : conllOf exTree = .ok (lit
    ("1\t-LRB-\t_\tNN\tNN\t_\t2\tNP\t_\t(<T S[dcl] 1 2> (<L NP NN NN -LRB- NP>)\n" ++
     "2\truns\tXX\tXX\tXX\t_\t0\tS[dcl]\\NP\t_\t(<L S[dcl]\\NP XX XX runs S[dcl]\\NP>) )")) := by
  decide +kernel

example : lastColumns (lit
    ("1\t-LRB-\t_\tNN\tNN\t_\t2\tNP\t_\t(<T S[dcl] 1 2> (<L NP NN NN -LRB- NP>)\n" ++
     "2\truns\tXX\tXX\tXX\t_\t0\tS[dcl]\\NP\t_\t(<L S[dcl]\\NP XX XX runs S[dcl]\\NP>) )")) =
    [lit "(<T S[dcl] 1 2> (<L NP NN NN -LRB- NP>)", lit "(<L S[dcl]\\NP XX XX runs S[dcl]\\NP>) )"] := by
  decide +kernel

private theorem exPos : AllToks (fun tok => ∃ p, Token.get? tok (lit "pos") = some p) exTree :=
  ⟨⟨_, rfl⟩, ⟨_, rfl⟩⟩

example : joinSep cSpace (lastColumns (lit
    ("1\t-LRB-\t_\tNN\tNN\t_\t2\tNP\t_\t(<T S[dcl] 1 2> (<L NP NN NN -LRB- NP>)\n" ++
     "2\truns\tXX\tXX\tXX\t_\t0\tS[dcl]\\NP\t_\t(<L S[dcl]\\NP XX XX runs S[dcl]\\NP>) )"))) =
    lit "(<T S[dcl] 1 2> (<L NP NN NN -LRB- NP>) (<L S[dcl]\\NP XX XX runs S[dcl]\\NP>) )" :=
  conll_fragments exTree _ _ exToks exPos exCats exLine exConll

/-- the hypothesis on `pos` is needed: without it the conll column carries `_` where the AUTO
    line carries `POS` -/
example :
    let t : Tree := .leaf cNP [(lit "word", lit "it")] (lit "lex") (lit "<lex>")
    autoOf t = .ok (lit "(<L NP POS POS it NP>)") ∧
    (conllOf t).map lastColumns = .ok [lit "(<L NP _ _ it NP>)"] := by
  decide +kernel

/-- the repair is the identity on the example categories, by the theorem; it is not on the
    CCGbank spellings it is meant for -/
example : fixCat cVP.str = cVP.str := fixcat_id cVP wfVP
example : fixCat (lit "(S\\NP)[conj]") = lit "(S\\NP)" := by decide +kernel
example : fixCat (lit "NP[conj]") = lit "NP[conj]" := by decide +kernel

end examples

end Depccg.C08
