/-
  The search theorems (C01 C02 C09 C10 C16), transported to the lazy run — the model of what
  `parse_sentence` really does, with the rule cache filled during the search — through
  `lazy_eq_final_partial`: under the glue invariant and with every tag column an id of the table,
  a lazy run is `Search.run` over the id-level view `view gstF` of its own final cache.
  "Licensed" below therefore means: licensed by the rule-function results the search has cached,
  which `lazy_inv` / `Represents` tie to the rule functions themselves.
-/
import Depccg.Props.Lazy
import Depccg.Props.SearchHeap

namespace Depccg.LazyProps
open Depccg Search SearchProps GlueTree GlueRun Lazy GlueRunProps

/-- the hypotheses under which `run` starts a sentence: the glue invariant holds and the tag
    matrix has no more columns than the category table has entries -/
structure Ready (G : GlueRun.CatGrammar) (gst : GSt) (s : Sent) : Prop where
  inv : Inv' G gst
  lex : ∀ row ∈ s.tags, row.length ≤ gst.cats.length

theorem runL_eq_run (G : GlueRun.CatGrammar) (gst : GSt) (s : Sent) (cfg : Cfg) (h : Ready G gst s) :
    SameOutcome (runL G gst s cfg).1 (run (view (runL G gst s cfg).2) s cfg) :=
  lazy_eq_final_partial pickHeap G gst s cfg [] pickHeap_ok h.inv h.lex

/-- C02: every returned item carries a licensed complete parse over the sentence's tokens -/
theorem lazy_returned_valid (G : GlueRun.CatGrammar) (gst : GSt) (s : Sent) (cfg : Cfg) (h : Ready G gst s) :
    ∀ r ∈ (runL G gst s cfg).1.results,
      LicensedRoot (view (runL G gst s cfg).2) s cfg r.d ∧ leafToks r.d = List.range s.n ∧ r.cat = dcat r.d ∧ r.fin = true := by
  intro r hr
  rw [(runL_eq_run G gst s cfg h).1] at hr
  exact run_returned_valid _ s cfg r hr

/-- C16: the supertag on every leaf of a returned parse was admitted by the beam -/
theorem lazy_leaf_tags_admitted (G : GlueRun.CatGrammar) (gst : GSt) (s : Sent) (cfg : Cfg) (h : Ready G gst s) :
    ∀ r ∈ (runL G gst s cfg).1.results, ∀ tc ∈ leafCats r.d, ∃ sc, (sc, tc.2) ∈ admitted s cfg tc.1 := by
  intro r hr tc htc
  exact leaf_tags_admitted _ s cfg r.d (lazy_returned_valid G gst s cfg h r hr).1.1 tc htc

/-- C09: the reported score is the model score of the returned derivation -/
theorem lazy_score_accounting (G : GlueRun.CatGrammar) (gst : GSt) (s : Sent) (cfg : Cfg) (h : Ready G gst s) :
    ∀ r ∈ (runL G gst s cfg).1.results, r.prio = modelScore s cfg r.d := by
  intro r hr
  rw [(runL_eq_run G gst s cfg h).1] at hr
  exact run_score_accounting _ s cfg r hr

/-- C01 (observable half): popped priorities never increase -/
theorem lazy_pops_nonincreasing (G : GlueRun.CatGrammar) (gst : GSt) (s : Sent) (cfg : Cfg) (h : Ready G gst s)
    (hs : SentOK s) (hpen : 0 ≤ cfg.penalty) :
    ((runL G gst s cfg).1.popped.map Item.prio).Pairwise (· ≥ ·) := by
  rw [(runL_eq_run G gst s cfg h).2.1]
  exact run_pops_nonincreasing _ s cfg hs hpen

/-- C01: with a head-uniform cache the first parse is optimal among everything the cache licenses -/
theorem lazy_first_parse_optimal (G : GlueRun.CatGrammar) (gst : GSt) (s : Sent) (cfg : Cfg) (h : Ready G gst s)
    (hs : SentOK s) (hpen : 0 ≤ cfg.penalty) (hu : HeadUniform (view (runL G gst s cfg).2)) (h1 : cfg.nbest = 1) :
    ∀ t rest, (runL G gst s cfg).1.results = t :: rest →
      ∀ d, LicensedRoot (view (runL G gst s cfg).2) s cfg d → modelScore s cfg d ≤ t.prio := by
  intro t rest hres
  rw [(runL_eq_run G gst s cfg h).1] at hres
  exact run_first_parse_optimal _ s cfg hs hpen hu h1 t rest hres

/-- C01: failure with budget left means the cache licenses no complete parse -/
theorem lazy_failure_only_if_none (G : GlueRun.CatGrammar) (gst : GSt) (s : Sent) (cfg : Cfg) (h : Ready G gst s)
    (hs : SentOK s) (hpen : 0 ≤ cfg.penalty) (hu : HeadUniform (view (runL G gst s cfg).2)) (h1 : cfg.nbest = 1) :
    (runL G gst s cfg).1.results = [] → (runL G gst s cfg).1.steps < cfg.maxStep →
      ¬ ∃ d, LicensedRoot (view (runL G gst s cfg).2) s cfg d := by
  intro hres hsteps
  rw [(runL_eq_run G gst s cfg h).1] at hres
  rw [(runL_eq_run G gst s cfg h).2.2.1] at hsteps
  exact run_failure_only_if_none _ s cfg hs hpen hu h1 hres hsteps

/-- C10: the n-best list is the top of all licensed complete parses, without repetition -/
theorem lazy_nbest_topk (G : GlueRun.CatGrammar) (gst : GSt) (s : Sent) (cfg : Cfg) (h : Ready G gst s)
    (hs : SentOK s) (hpen : 0 ≤ cfg.penalty) (hn : 1 < cfg.nbest) (hsteps : (runL G gst s cfg).1.steps < cfg.maxStep) :
    let res := (runL G gst s cfg).1.results
    let g := view (runL G gst s cfg).2
    (∀ d, LicensedRoot g s cfg d → d ∉ res.map (·.d) → ∀ r ∈ res, modelScore s cfg d ≤ r.prio) ∧
    (res.length < cfg.nbest → ∀ d, LicensedRoot g s cfg d → d ∈ res.map (·.d)) ∧
    (res.map (·.d)).Nodup := by
  have e := runL_eq_run G gst s cfg h
  rw [e.2.2.1] at hsteps
  have := run_nbest_topk (view (runL G gst s cfg).2) s cfg hs hpen hn hsteps
  simp only [] at this ⊢
  rw [e.1]
  exact this

/-- C10 (order, count): best first, never more than `nbest` -/
theorem lazy_results_sorted (G : GlueRun.CatGrammar) (gst : GSt) (s : Sent) (cfg : Cfg) :
    ((runL G gst s cfg).1.results.map Item.prio).Pairwise (· ≥ ·) :=
  List.pairwise_map.2 (sortDesc_sorted _)

theorem lazy_results_count (G : GlueRun.CatGrammar) (gst : GSt) (s : Sent) (cfg : Cfg) (h : Ready G gst s) :
    (runL G gst s cfg).1.results.length ≤ cfg.nbest := by
  rw [(runL_eq_run G gst s cfg h).1]
  exact results_count pickHeap _ s cfg pickHeap_ok

/-- the hypotheses hold at the start of every sentence of a `run` call: `Ready` after any history -/
theorem ready_of_history (G : GlueRun.CatGrammar) (categories roots : List Cat) (calls : List Call) (x : SentIn)
    (hnd : categories.Nodup) (hlex : LexOK categories x) :
    Ready G (calls.foldl (GlueRun.step G) (GlueRun.init categories roots)) (sentOf (addRoots categories roots).2 x) := by
  obtain ⟨hinv, hpre⟩ := gr_run_inv' G calls _ (init_inv' G categories roots hnd)
  refine ⟨hinv, ?_⟩
  intro row hrow
  have h1 : categories.length ≤ (GlueRun.init categories roots).cats.length :=
    (gr_addRoots_prefix roots categories).length_le
  exact Nat.le_trans (hlex row hrow) (Nat.le_trans h1 hpre.length_le)

end Depccg.LazyProps
