/-
  C12 (a), C09 at the level of trees: what `retrieve_tree` builds from a licensed derivation
  carries, on every node, the label, symbol and head direction of the very cache entry (= grammar
  result) that created it, and its head flags are those the search used for scoring.
-/
import Depccg.GlueTree
import Depccg.Props.SearchBasics

namespace Depccg.C12
open Depccg Search SearchProps GlueTree

/-- node by node: the tree built for `d` mirrors `d`; each unary / binary node carries the fields of
    the cache entry at its rule id in the row of its children's category ids -/
inductive Mirrors (T : Tables) (tokens : List Token) : Deriv → Tree → Prop
  | leaf (t c : Nat) (cat : Cat) (tok : Token) : T.cats c = some cat → tokens[t]? = some tok →
      Mirrors T tokens (.leaf t c) (Tree.mkTerminal tok cat)
  | un (c rid : Nat) (d : Deriv) (cat : Cat) (e : CacheEntry) (child : Tree) :
      Mirrors T tokens d child → T.cats c = some cat → (T.un (dcatId d))[rid]? = some e → e.catId = c →
      Mirrors T tokens (.un c rid d) (.un cat e.opString e.opSymbol child)
  | bin (c rid : Nat) (hl : Bool) (l r : Deriv) (cat : Cat) (e : CacheEntry) (tl tr : Tree) :
      Mirrors T tokens l tl → Mirrors T tokens r tr → T.cats c = some cat →
      (T.bin (dcatId l) (dcatId r))[rid]? = some e → e.catId = c → e.headLeft = hl →
      Mirrors T tokens (.bin c rid hl l r) (.bin cat e.opString e.opSymbol e.headLeft tl tr)

theorem dcatId_eq (d : Deriv) : dcatId d = dcat d := by cases d <;> rfl

/-- every category id occurring in the derivation is in the table, every leaf token exists -/
def Covered (T : Tables) (tokens : List Token) : Deriv → Prop
  | .leaf t c => (T.cats c).isSome ∧ t < tokens.length
  | .un c _ d => (T.cats c).isSome ∧ Covered T tokens d
  | .bin c _ _ l r => (T.cats c).isSome ∧ Covered T tokens l ∧ Covered T tokens r

/-- labels, symbols and head directions on the tree are those of the grammar result that created
    each node, even when several results exist for the same children -/
theorem labels_from_creator (T : Tables) (tokens : List Token) (s : Sent) (cfg : Cfg) (d : Deriv)
    (hl : Licensed (grammarOf T) s cfg d) (hc : Covered T tokens d) :
    ∃ t, retrieve T tokens d = .ok t ∧ Mirrors T tokens d t := by
  induction hl with
  | leaf t c sc ht hadm =>
    obtain ⟨h1, h2⟩ := hc
    obtain ⟨cat, hcat⟩ := Option.isSome_iff_exists.1 h1
    have htok : tokens[t]? = some tokens[t] := List.getElem?_eq_getElem h2
    exact ⟨_, by simp [retrieve, hcat, htok], Mirrors.leaf t c cat _ hcat htok⟩
  | un c rid d hd hrule hspan ih =>
    obtain ⟨h1, h2⟩ := hc
    obtain ⟨cat, hcat⟩ := Option.isSome_iff_exists.1 h1
    obtain ⟨child, hch, hm⟩ := ih h2
    simp only [grammarOf, List.getElem?_map, Option.map_eq_some_iff] at hrule
    obtain ⟨e, he, hec⟩ := hrule
    rw [← dcatId_eq] at he
    exact ⟨_, by simp [retrieve, hch, hcat, he], Mirrors.un c rid d cat e child hm hcat he hec⟩
  | bin c rid hl l r hlic hric hadj hrule ihl ihr =>
    obtain ⟨h1, h2, h3⟩ := hc
    obtain ⟨cat, hcat⟩ := Option.isSome_iff_exists.1 h1
    obtain ⟨tl, htl, hml⟩ := ihl h2
    obtain ⟨tr, htr, hmr⟩ := ihr h3
    simp only [grammarOf, List.getElem?_map, Option.map_eq_some_iff] at hrule
    obtain ⟨e, he, hee⟩ := hrule
    rw [← dcatId_eq l, ← dcatId_eq r] at he
    have hec : e.catId = c := by injection hee
    have heh : e.headLeft = hl := by injection hee
    exact ⟨_, by simp [retrieve, htl, htr, hcat, he],
      Mirrors.bin c rid hl l r cat e tl tr hml hmr hcat he hec heh⟩

/-- the head flag stored on a binary node equals the flag of the derivation node -/
theorem mirrors_flag (T : Tables) (tokens : List Token) (c rid : Nat) (hl : Bool) (l r : Deriv) (t : Tree)
    (h : Mirrors T tokens (.bin c rid hl l r) t) : t.headLeft = hl := by
  cases h with
  | bin _ _ _ _ _ cat e tl tr _ _ _ _ _ heh => simpa [Tree.headLeft] using heh

end Depccg.C12
