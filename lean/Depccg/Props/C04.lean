import Depccg.Ja
