/-
  C04  Japanese combinatory rules are sound.
  Property theorems only; definitions and statements are in Depccg/Props/C04Defs.lean (unchanged),
  helper lemmas in Depccg/Proofs/C04Lemmas.lean.
-/
import Depccg.Props.C04Defs
import Depccg.Proofs.C04Lemmas

namespace Depccg.C04
open Depccg Cat Str
open Depccg.C03 (PartsMatch Inst fwdSlash bwdSlash)

/-- soundness: every result of the Japanese grammar is justified by the schema its symbol names -/
theorem ja_sound : JaSoundStatement := by
  intro seen x y rs hx hy h r hr
  obtain ⟨c, hc, hcr⟩ := applyBinary_mem h hr
  exact comb_sound hx hy hc hcr

/-- the head is always the right child -/
theorem ja_head_right : JaHeadRightStatement := by
  intro seen x y rs h r hr
  obtain ⟨c, hc, hcr⟩ := applyBinary_mem h hr
  exact (comb_label hc hcr).2

/-- the labels the Japanese binary rules can emit -/
theorem ja_labels_closed : JaLabelsClosedStatement := by
  intro seen x y rs h r hr
  obtain ⟨c, hc, hcr⟩ := applyBinary_mem h hr
  exact (comb_label hc hcr).1

/-- feature triples of a result come from the inputs -/
theorem ja_features_from_inputs : JaFeaturesFromInputsStatement := by
  intro seen x y rs hx hy h r hr
  exact justified_feats (ja_sound seen x y rs hx hy h r hr)

/-- unary steps are labelled by the shape of their input -/
theorem ja_unary_label : JaUnaryLabelStatement := by
  intro T x rs hd h r hr
  obtain ⟨sym, hs, h1, h2, h3⟩ := applyUnary_inv h hr
  have := unaryRuleSymbol_spec hd hs
  subst this
  exact ⟨h1, h2, h3⟩

/-- the unary labels are the six listed ones; the two label fields coincide -/
theorem ja_unary_labels_closed : JaUnaryLabelsClosedStatement := by
  intro T x rs h r hr
  obtain ⟨sym, hs, h1, h2, _⟩ := applyUnary_inv h hr
  rw [h1, h2]
  exact ⟨unaryRuleSymbol_closed hs, rfl⟩

/-! ### non-vacuity -/

section Examples
open Depccg.Ja (triCat)

private def sBaseF : Cat := triCat "S" "mod" "nm" "form" "base" "fin" "f"
private def sBaseT : Cat := triCat "S" "mod" "nm" "form" "base" "fin" "t"
private def sX : Cat := triCat "S" "mod" "X1" "form" "X2" "fin" "f"
private def sXt : Cat := triCat "S" "mod" "X1" "form" "X2" "fin" "t"
private def npGa : Cat := triCat "NP" "case" "ga" "mod" "nm" "fin" "f"
private def npO : Cat := triCat "NP" "case" "o" "mod" "nm" "fin" "f"

/-- `(S[base,f]\NP[ga])\NP[o]` : a transitive verb -/
private def exTV : Cat := .fn (.fn sBaseF cBSlash npGa) cBSlash npO
/-- `S[base,t]\S[base,f]` : a sentence-final auxiliary -/
private def exAux : Cat := .fn sBaseT cBSlash sBaseF
/-- `S[base,f]\S[base,f]` : a modifier -/
private def exMod : Cat := .fn sBaseF cBSlash sBaseF
/-- `S[X1,X2,t]\S[X1,X2,f]` : an auxiliary with feature variables -/
private def exAuxX : Cat := .fn sXt cBSlash sX

private theorem tv_ternary : C14.AllTernary exTV := ⟨⟨trivial, trivial⟩, trivial⟩
private theorem aux_ternary : C14.AllTernary exAux := ⟨trivial, trivial⟩

/-- `<B2` fires: `(S[f]\NP)\NP` followed by `S[t]\S[f]` gives `(S[t]\NP)\NP` -/
private theorem ex_b2 : Ja.applyBinary none exTV exAux =
    .ok [lab "bx" "<B2" (.fn (.fn sBaseT cBSlash npGa) cBSlash npO)] := by decide +kernel

/-- so the soundness theorem applies to it (all hypotheses hold) and yields the justification -/
example : Justified exTV exAux (lab "bx" "<B2" (.fn (.fn sBaseT cBSlash npGa) cBSlash npO)) :=
  ja_sound none exTV exAux _ tv_ternary aux_ternary ex_b2 _ (List.mem_singleton.2 rfl)

/-- the same fact proved directly from the schema: the witnesses exist independently of the code -/
example : Justified exTV exAux (lab "bx" "<B2" (.fn (.fn sBaseT cBSlash npGa) cBSlash npO)) :=
  .b2 sBaseT sBaseF sBaseF npGa npO sBaseT npGa npO cBSlash cBSlash cBSlash rfl rfl (Or.inl rfl) (Or.inl rfl)
    ⟨by decide, by simp [C06.feats, C06.AllCompat, C06.Compat, sBaseF, triCat]⟩ (by decide)
    (by simp [Inst, C06.InstanceOf, sBaseT, triCat]) (by simp [Inst, C06.InstanceOf, npGa, triCat])
    (by simp [Inst, C06.InstanceOf, npO, triCat])

/-- with a modifier on the right the left category is returned unchanged (`<B2`, modifier case) -/
example : Ja.applyBinary none exTV exMod = .ok [lab "bx" "<B2" exTV] := by decide +kernel

/-- `>Bx1` fires: `S[t]/S[f]` followed by `S[f]\NP` gives `S[t]\NP` -/
example : Ja.applyBinary none (.fn sBaseT cSlash sBaseF) (.fn sBaseF cBSlash npGa) =
    .ok [lab "fx" ">Bx1" (.fn sBaseT cBSlash npGa)] := by decide +kernel

/-- feature variables: `S[nm,base,f]\NP` followed by `S[X1,X2,t]\S[X1,X2,f]`.  The variable feature
    of the matched `S[X1,X2,f]` is instantiated, the result category `S[X1,X2,t]` carries a different
    feature object and is returned as it is (the `Inst` of the schema allows both) -/
example : Ja.applyBinary none (.fn sBaseF cBSlash npGa) exAuxX =
    .ok [lab "bx" "<B1" (.fn sXt cBSlash npGa)] := by decide +kernel

/-- a feature variable that *is* instantiated: `(S[X1,X2,f]\NP)/S[X1,X2,f]` applied to `S[nm,base,f]`
    gives `S[nm,base,f]\NP` (the `Inst` of the `fa` schema: variable features replaced by input features) -/
example : Ja.applyBinary none (.fn (.fn sX cBSlash npGa) cSlash sX) sBaseF =
    .ok [lab "fa" ">" (.fn sBaseF cBSlash npGa)] := by decide +kernel

/-- backward application -/
example : Ja.applyBinary none npGa (.fn sBaseF cBSlash npGa) = .ok [lab "ba" "<" sBaseF] := by
  decide +kernel

/-- two root categories: `SSEQ` (and nothing else) -/
example : Ja.applyBinary none sBaseF sBaseT = .ok [lab "other" "SSEQ" sBaseT] := by decide +kernel

/-- the feature theorem applies to the `<B2` example -/
example : ∀ f ∈ C06.feats (Cat.fn (.fn sBaseT cBSlash npGa) cBSlash npO),
    f ∈ C06.feats exTV ++ C06.feats exAux :=
  ja_features_from_inputs none exTV exAux _ tv_ternary aux_ternary ex_b2 _ (List.mem_singleton.2 rfl)

/-- `AllTernary` is needed: with unary features mixed in, matching raises and there is no result list -/
example : Ja.applyBinary none (.fn sBaseF cSlash npGa) (.atom (lit "NP") (.un none))
    = .error .attributeError := by decide +kernel

/-! unary labels -/

/-- `S[mod=adn,form=base,fin=f]` -/
private def sAdn : Cat := triCat "S" "mod" "adn" "form" "base" "fin" "f"
/-- `S[mod=adv,form=cont,fin=f]\NP[case=ga,mod=nm,fin=f]` -/
private def sAdv1 : Cat := .fn (triCat "S" "mod" "adv" "form" "cont" "fin" "f") cBSlash npGa
private def sAdv2 : Cat := .fn sAdv1 cBSlash npO

example : specLabel sAdn = "ADNext" := by decide +kernel
example : specLabel (.fn sAdn cBSlash npGa) = "ADNint" := by decide +kernel
example : specLabel sAdv1 = "ADV1" := by decide +kernel
example : specLabel sAdv2 = "ADV2" := by decide +kernel
example : specLabel (triCat "S" "mod" "adv" "form" "cont" "fin" "f") = "ADV0" := by decide +kernel
example : specLabel sBaseF = "OTHER" := by decide +kernel

private theorem distinct_of_resultAtom {x : Cat} {b k1 v1 k2 v2 k3 v3 : Str}
    (h : Ja.resultAtom x = .atom b (.tri k1 v1 k2 v2 k3 v3))
    (hk : k1 ≠ k2 ∧ k1 ≠ k3 ∧ k2 ≠ k3) : DistinctKeys x := by
  intro b' a1 w1 a2 w2 a3 w3 h'
  rw [h] at h'
  cases h'
  exact hk

example : DistinctKeys sAdv1 :=
  distinct_of_resultAtom (x := sAdv1) rfl (by decide)

/-- the code's labels on a table with a hit, as the theorem predicts -/
example : Ja.applyUnary [(sAdv1, [sBaseF, npGa])] sAdv1 =
    .ok [⟨sBaseF, lit "ADV1", lit "ADV1", true⟩, ⟨npGa, lit "ADV1", lit "ADV1", true⟩] := by
  decide +kernel

example : Ja.applyUnary [(sAdn, [npGa])] sAdn = .ok [⟨npGa, lit "ADNext", lit "ADNext", true⟩] := by
  decide +kernel

/-- `DistinctKeys` is needed: with the key `mod` twice the code looks at every pair, the
    specification at the first -/
example : Ja.unaryRuleSymbol (triCat "S" "mod" "adv" "mod" "adn" "fin" "f") = .ok (lit "ADNext") ∧
    specLabel (triCat "S" "mod" "adv" "mod" "adn" "fin" "f") = "ADV0" := by decide +kernel

end Examples

end Depccg.C04
