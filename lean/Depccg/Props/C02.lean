import Depccg.Props.SearchBasics
