/-
  C13  Categories behave as values.
  Property theorems only (helper lemmas are local and private to keep statements visible).
-/
import Depccg.Cat

namespace Depccg.C13
open Depccg Cat

/-! ### equality is structural -/

theorem feat_pyEq_iff (f g : Feat) : Feat.pyEq f g = true ↔ f = g := by
  cases f <;> cases g <;> simp [Feat.pyEq]
  · constructor
    · rintro ⟨⟨⟨h1, h2⟩, h3, h4⟩, h5, h6⟩; exact ⟨h1, h2, h3, h4, h5, h6⟩
    · rintro ⟨h1, h2, h3, h4, h5, h6⟩; exact ⟨⟨⟨h1, h2⟩, h3, h4⟩, h5, h6⟩

/-- `a == b` (the hand-written `__eq__`) holds exactly for identical structure, slashes, atoms
    and features. -/
theorem pyEq_iff (a b : Cat) : Cat.pyEq a b = true ↔ a = b := by
  induction a generalizing b with
  | atom ba fa =>
    cases b with
    | atom bb fb => simp [Cat.pyEq, feat_pyEq_iff]
    | fn _ _ _ => simp [Cat.pyEq]
  | fn l s r ihl ihr =>
    cases b with
    | atom _ _ => simp [Cat.pyEq]
    | fn l' s' r' => simp [Cat.pyEq, ihl, ihr, and_assoc]

/-! ### hashing agrees with equality -/

/-- equal categories hash the same tuple, so dict/set lookups keyed by categories find them -/
theorem hash_coherent (a b : Cat) (h : Cat.pyEq a b = true) : Cat.hashKey a = Cat.hashKey b := by
  rw [(pyEq_iff a b).1 h]

theorem feat_hashKey_injective (f g : Feat) (h : Feat.hashKey f = Feat.hashKey g) : f = g := by
  cases f <;> cases g <;> simp_all [Feat.hashKey]

/-- and the hashed tuple determines the value (no field is left out of the hash) -/
theorem hashKey_injective (a b : Cat) (h : Cat.hashKey a = Cat.hashKey b) : a = b := by
  induction a generalizing b with
  | atom ba fa =>
    cases b with
    | atom bb fb =>
      simp only [Cat.hashKey, HashKey.atomK.injEq] at h
      rw [h.1, feat_hashKey_injective _ _ h.2]
    | fn _ _ _ => simp only [Cat.hashKey] at h; cases h
  | fn l s r ihl ihr =>
    cases b with
    | atom _ _ => simp only [Cat.hashKey] at h; cases h
    | fn l' s' r' =>
      simp only [Cat.hashKey, HashKey.fnK.injEq] at h
      rw [ihl _ h.1, h.2.1, ihr _ h.2.2]

/-! ### comparison with a string -/

/-- `category == "text"` succeeds exactly for the category's own canonical text -/
theorem eqStr_iff (c : Cat) (s : Str) : Cat.pyEqStr c s = true ↔ s = c.str := by
  simp only [Cat.pyEqStr, beq_iff_eq]
  exact ⟨fun h => h.symm, fun h => h.symm⟩

/-! ### feature-blind comparison is an equivalence coarser than equality -/

theorem xor_refl (a : Cat) : Cat.xorEq a a = true := by
  induction a with
  | atom b f => simp [Cat.xorEq]
  | fn l s r ihl ihr => simp [Cat.xorEq, ihl, ihr]

theorem xor_symm (a b : Cat) (h : Cat.xorEq a b = true) : Cat.xorEq b a = true := by
  induction a generalizing b with
  | atom ba fa =>
    cases b with
    | atom bb fb => simp only [Cat.xorEq, beq_iff_eq] at h ⊢; exact h.symm
    | fn _ _ _ => simp [Cat.xorEq] at h
  | fn l s r ihl ihr =>
    cases b with
    | atom _ _ => simp [Cat.xorEq] at h
    | fn l' s' r' =>
      simp only [Cat.xorEq, Bool.and_eq_true, beq_iff_eq] at h ⊢
      exact ⟨⟨ihl _ h.1.1, h.1.2.symm⟩, ihr _ h.2⟩

theorem xor_trans (a b c : Cat) (h1 : Cat.xorEq a b = true) (h2 : Cat.xorEq b c = true) :
    Cat.xorEq a c = true := by
  induction a generalizing b c with
  | atom ba fa =>
    cases b <;> cases c <;> simp_all [Cat.xorEq]
  | fn l s r ihl ihr =>
    cases b with
    | atom _ _ => simp [Cat.xorEq] at h1
    | fn l' s' r' =>
      cases c with
      | atom _ _ => simp [Cat.xorEq] at h2
      | fn l'' s'' r'' =>
        simp only [Cat.xorEq, Bool.and_eq_true, beq_iff_eq] at h1 h2 ⊢
        exact ⟨⟨ihl _ _ h1.1.1 h2.1.1, h1.1.2.trans h2.1.2⟩, ihr _ _ h1.2 h2.2⟩

theorem xor_equivalence : Equivalence (fun a b : Cat => Cat.xorEq a b = true) :=
  ⟨xor_refl, fun {a b} h => xor_symm a b h, fun {a b c} h1 h2 => xor_trans a b c h1 h2⟩

/-- equal categories are feature-blind equal -/
theorem xor_of_eq (a b : Cat) (h : Cat.pyEq a b = true) : Cat.xorEq a b = true := by
  rw [(pyEq_iff a b).1 h]; exact xor_refl b

/-- strictly coarser: `S[dcl] ^ S` although `S[dcl] ≠ S` -/
theorem xor_coarser_witness :
    ∃ a b : Cat, Cat.xorEq a b = true ∧ Cat.pyEq a b = false :=
  ⟨.atom [83] (.un (some [100, 99, 108])), .atom [83] (.un none), by decide, by decide⟩

/-! ### erasing named features -/

/-- `f` is one of the named features: some argument text reads (as `Feature.parse` does) to `f` -/
def named (args : List Str) (f : Feat) : Bool :=
  args.any fun a => match Feat.parse a with | .ok g => Feat.pyEq f g | .error _ => false

/-- the specification: replace the feature of exactly the atoms whose feature is named -/
def erase (p : Feat → Bool) : Cat → Cat
  | .atom b f => if p f then .atom b (.un none) else .atom b f
  | .fn l s r => .fn (erase p l) s (erase p r)

/-- atoms left to right -/
def atoms : Cat → List (Str × Feat)
  | .atom b f => [(b, f)]
  | .fn l _ r => atoms l ++ atoms r

/-- the category with every atom forgotten: slashes and bracketing only -/
inductive Skel where
  | leaf
  | node (l : Skel) (s : Nat) (r : Skel)
  deriving DecidableEq

def skel : Cat → Skel
  | .atom _ _ => .leaf
  | .fn l s r => .node (skel l) s (skel r)

def WellFormedArgs (args : List Str) : Prop := ∀ a ∈ args, ∃ g, Feat.parse a = .ok g

private theorem featIn_eq (f : Feat) (args : List Str) (h : WellFormedArgs args) :
    Cat.featIn f args = .ok (named args f) := by
  induction args with
  | nil => simp [Cat.featIn, named]
  | cons a as ih =>
    obtain ⟨g, hg⟩ := h a (by simp)
    have ih' := ih (fun x hx => h x (by simp [hx]))
    simp only [Cat.featIn, Feat.pyEqStr, hg, named, List.any_cons]
    cases hfg : Feat.pyEq f g
    · simp only [ih', named, Bool.false_or]
    · simp

/-- `clear_features(*args)` never raises on readable feature names and removes exactly the
    named features, everywhere -/
theorem clear_spec (args : List Str) (h : WellFormedArgs args) (c : Cat) :
    Cat.clear args c = .ok (erase (named args) c) := by
  induction c with
  | atom b f =>
    simp only [Cat.clear, featIn_eq f args h, erase]
    cases named args f <;> simp
  | fn l s r ihl ihr => simp [Cat.clear, ihl, ihr, erase]

/-- ... which means: the atoms are the old atoms with named features replaced by "no
    feature", in the same order, and slashes/bracketing are untouched -/
theorem erase_atoms (p : Feat → Bool) (c : Cat) :
    atoms (erase p c) = (atoms c).map fun bf => (bf.1, if p bf.2 then Feat.un none else bf.2) := by
  induction c with
  | atom b f => simp only [erase, atoms]; split <;> simp [atoms, *]
  | fn l s r ihl ihr => simp [erase, atoms, ihl, ihr]

theorem erase_skel (p : Feat → Bool) (c : Cat) : skel (erase p c) = skel c := by
  induction c with
  | atom b f => simp only [erase]; split <;> simp [skel]
  | fn l s r ihl ihr => simp [erase, skel, ihl, ihr]

/-- a category is determined by its skeleton and atoms, so the two facts above say everything -/
theorem skel_atoms_determine (a b : Cat) (hs : skel a = skel b) (ha : atoms a = atoms b) : a = b := by
  induction a generalizing b with
  | atom ba fa =>
    cases b with
    | atom bb fb => simp [atoms] at ha; rw [ha.1, ha.2]
    | fn _ _ _ => simp [skel] at hs
  | fn l s r ihl ihr =>
    cases b with
    | atom _ _ => simp [skel] at hs
    | fn l' s' r' =>
      simp only [skel, Skel.node.injEq] at hs
      have hlen : ∀ c d : Cat, skel c = skel d → (atoms c).length = (atoms d).length := by
        intro c
        induction c with
        | atom _ _ => intro d hd; cases d <;> simp_all [skel, atoms]
        | fn cl cs cr ihcl ihcr =>
          intro d hd
          cases d with
          | atom _ _ => simp [skel] at hd
          | fn dl ds dr =>
            simp only [skel, Skel.node.injEq] at hd
            simp [atoms, ihcl dl hd.1, ihcr dr hd.2.2]
      simp only [atoms] at ha
      have := List.append_inj ha (hlen l l' hs.1)
      rw [ihl l' hs.1 this.1, hs.2.1, ihr r' hs.2.2 this.2]

/-- erasing twice is erasing once -/
theorem clear_idem (args : List Str) (h : WellFormedArgs args) (c : Cat) :
    (Cat.clear args c >>= Cat.clear args) = Cat.clear args c := by
  rw [clear_spec args h c]
  show Cat.clear args (erase (named args) c) = _
  rw [clear_spec args h]
  congr 1
  induction c with
  | atom b f =>
    simp only [erase]
    split
    · simp only [erase]; split <;> rfl
    · simp only [erase, *]; simp
  | fn l s r ihl ihr => simp [erase, ihl, ihr]

/-- erasing nothing changes nothing -/
theorem clear_nil (c : Cat) : Cat.clear [] c = .ok c := by
  induction c with
  | atom b f => simp [Cat.clear, Cat.featIn]
  | fn l s r ihl ihr => simp [Cat.clear, ihl, ihr]

/-- features that are not named survive: erasure changes nothing else -/
theorem erase_unnamed (p : Feat → Bool) (c : Cat) (h : ∀ bf ∈ atoms c, p bf.2 = false) :
    erase p c = c := by
  induction c with
  | atom b f => simp [erase, h (b, f) (by simp [atoms])]
  | fn l s r ihl ihr =>
    simp only [erase]
    rw [ihl (fun bf hbf => h bf (by simp [atoms, hbf])), ihr (fun bf hbf => h bf (by simp [atoms, hbf]))]

/-! ### non-vacuity: concrete instances meeting the hypotheses -/

example : WellFormedArgs [Str.lit "X", Str.lit "nb"] := by
  intro a ha
  simp at ha
  rcases ha with rfl | rfl <;> exact ⟨_, rfl⟩

-- NP[nb]/N with 'nb' erased is NP/N
example : Cat.clear [Str.lit "nb"] (.fn (.atom (Str.lit "NP") (.un (some (Str.lit "nb")))) 47 (.atom (Str.lit "N") (.un none)))
    = .ok (.fn (.atom (Str.lit "NP") (.un none)) 47 (.atom (Str.lit "N") (.un none))) := by decide

end Depccg.C13
