/-
  What the program writes can be read back (C07 ∘ C11), for the formats whose documents are read
  as a whole: the text `print_` emits for `--format json`, `--format xml`, `--format jigg_xml`
  (including the newline `print` adds) is read by the readers written in Lean to the sentence
  numbers, n-best order, scores and trees of the results `depccg.parsing.run` returned.
  (`main_auto_reads_back` is the same for AUTO and the real file reader's model.)
-/
import Depccg.Props.CliDefs
import Depccg.Props.C07JsonDefs
import Depccg.Props.C15TextDefs

namespace Depccg.CliProps
open Depccg Str Search GlueRun Lazy Print Cli LazyProps Xml

/-- json: sentence numbers from 1, per sentence the json tree (`jsonOf`: shape, labels, categories,
    token attributes) and the score of every returned tree, the failure placeholder with `-inf` -/
def MainJsonReadsBackStatement : Prop :=
  ∀ (results : List SentResult) (text : Str),
    C07Json.BatchOK (results.map scoredK) →
    printText Fmt.json results = .ok text →
    Read.readJsonOutput text = some (C07Json.expected 1 (results.map scoredK))

/-- xml: the `<ccg>` records of `xmlOf` (on which `xml_roundtrip` is stated) -/
def MainXmlReadsBackStatement : Prop :=
  ∀ (results : List SentResult) (text : Str),
    (∀ r ∈ results, ∀ p ∈ scoredK r, C15Text.TreeKeysOK p.1) →
    printText Fmt.xml results = .ok text →
    Read.readXmlText text = some (xmlOf (treesOnly results))

/-- jigg_xml, under either program: the sentences of `jiggOf` with the `score` attributes -/
def MainJiggReadsBackStatement : Prop :=
  ∀ (ja : Bool) (results : List SentResult) (text : Str),
    (∀ r ∈ results, ∀ p ∈ scoredK r, C15Text.TreeKeysOK p.1) →
    printText (if ja then Fmt.jiggJa else Fmt.jiggEn) results = .ok text →
    ∃ ss, jiggOf ja (treesOnly results) = .ok ss ∧
      Read.readJiggText text = some (withScoresAll ss (results.map fun r => (scoredK r).map fun p => p.2))

/-- the tokens the program builds from its input lines have XML-name keys (`word`, `lemma`, `pos`,
    `entity`, `chunk`), and so has the failure placeholder: the hypothesis above is met by every
    result of the program -/
def ProgramTokensKeysOKStatement : Prop :=
  ∀ (piped : Bool) (line : Str) (toks : List Token),
    tokensOfLine piped line = .ok toks → ∀ tok ∈ toks, C15Text.TokKeysOK tok

def PlaceholderKeysOKStatement : Prop := C15Text.TreeKeysOK placeholder

end Depccg.CliProps
