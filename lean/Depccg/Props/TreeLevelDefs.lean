/-
  C09 and C16 stated on the objects the caller receives (`Tree`s with head flags and categories),
  not on the id-level derivations of the search:

  * the score attached to every returned tree is the model score recomputed from that tree — leaf
    tag scores (the column of the leaf's category in the caller's category list), the dependency
    score of every non-head child attaching to its head as determined by the tree's own head flags,
    the root attachment, minus the penalty once per unary node;
  * every leaf of every returned tree carries a supertag that the beam admitted for its word.
-/
import Depccg.TreeScore
import Depccg.Props.LazyDefs
import Depccg.Props.SearchDefs

namespace Depccg.TreeLevel
open Depccg Search SearchProps GlueTree GlueRun Lazy LazyProps

/-- C09 on the returned objects: whatever the call did before, every (tree, score) pair returned
    for a sentence satisfies `treeScore tree = score` -/
def TreeScoreStatement : Prop :=
  ∀ (G : GlueRun.CatGrammar) (categories roots : List Cat) (calls : List Call) (cfg : Cfg)
    (maxLength : Option Nat) (x : SentIn) (trees : List (Tree × Int)),
    categories.Nodup → LexOK categories x →
    (sentenceL pickHeap G (addRoots categories roots).2 cfg maxLength
        (calls.foldl (GlueRun.step G) (GlueRun.init categories roots)) x).1 = .ok (.parsed trees) →
    ∀ ts ∈ trees, treeScore categories (sentOf (addRoots categories roots).2 x) cfg ts.1 = some ts.2

/-- C16 on the returned objects: the i-th leaf of every returned tree carries the category of a
    column that the beam admitted for the i-th word -/
def TreeBeamStatement : Prop :=
  ∀ (G : GlueRun.CatGrammar) (categories roots : List Cat) (calls : List Call) (cfg : Cfg)
    (maxLength : Option Nat) (x : SentIn) (trees : List (Tree × Int)),
    categories.Nodup → LexOK categories x →
    (sentenceL pickHeap G (addRoots categories roots).2 cfg maxLength
        (calls.foldl (GlueRun.step G) (GlueRun.init categories roots)) x).1 = .ok (.parsed trees) →
    ∀ ts ∈ trees, (leafCatsT ts.1).length = x.tokens.length ∧
      ∀ (i : Nat) (c : Cat), (leafCatsT ts.1)[i]? = some c →
        ∃ sc col, (sc, col) ∈ admitted (sentOf (addRoots categories roots).2 x) cfg i ∧ categories[col]? = some c

/-- C10 (order) on the returned objects: the scores of the returned list are non-increasing and
    there are at most `nbest` of them -/
def TreesSortedStatement : Prop :=
  ∀ (G : GlueRun.CatGrammar) (categories roots : List Cat) (calls : List Call) (cfg : Cfg)
    (maxLength : Option Nat) (x : SentIn) (trees : List (Tree × Int)),
    categories.Nodup → LexOK categories x →
    (sentenceL pickHeap G (addRoots categories roots).2 cfg maxLength
        (calls.foldl (GlueRun.step G) (GlueRun.init categories roots)) x).1 = .ok (.parsed trees) →
    (trees.map (·.2)).Pairwise (· ≥ ·) ∧ trees.length ≤ cfg.nbest ∧ trees ≠ []

end Depccg.TreeLevel
