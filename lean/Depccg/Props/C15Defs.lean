/-
  C15  XML formats round-trip and give ccg2lambda a complete derivation.   Definitions, statements.
-/
import Depccg.Print.Xml
import Depccg.Props.TextDefs

namespace Depccg.C15
open Depccg Str Xml TextProps

/-! ### C&C XML -/

def fiveKeys : List Str := [lit "word", lit "pos", lit "entity", lit "lemma", lit "chunk"]
def reservedXml : List Str := [lit "start", lit "span", lit "cat"]

/-- a token carrying the five attributes of the C&C format and none of the names the encoder
    reserves for itself -/
def XmlTokOK (t : Token) : Prop :=
  (∀ k ∈ fiveKeys, ∃ v, Token.get? t k = some v) ∧ (∀ kv ∈ t, kv.1 ∉ reservedXml) ∧ (t.map (·.1)).Nodup

/-- what `read_xml` makes of a printed tree: the five token attributes (in the reader's order),
    unary labels kept, binary labels / head direction guessed from the grammar -/
def xmlImage (lang : Lang) : Tree → Except Err Tree
  | .leaf c tok _ _ =>
    let g (k : String) := Token.getD tok (lit k) []
    .ok (Tree.mkTerminal [(lit "word", g "word"), (lit "pos", g "pos"), (lit "entity", g "entity"),
                          (lit "lemma", g "lemma"), (lit "chunk", g "chunk")] c)
  | .un c s _ ch =>
    match xmlImage lang ch with
    | .error e => .error e
    | .ok ch' => .ok (.un c s (lit "<un>") ch')
  | .bin c _ _ _ l r =>
    match xmlImage lang l, xmlImage lang r with
    | .ok l', .ok r' =>
      match guess lang c l'.cat r'.cat with
      | .error e => .error e
      | .ok rule => .ok (.bin c rule.opString rule.opSymbol rule.headLeft l' r')
    | .error e, _ => .error e
    | _, .error e => .error e

/-- reading back C&C XML that depccg wrote yields the same tree (categories, shape), the unary
    rule labels, the grammar's labels on binary nodes, and the five token attributes -/
def XmlRoundtripStatement : Prop :=
  ∀ (lang : Lang) (t : Tree) (start : Nat),
    AllCats C05.WF t → AllCats (OneSystem lang) t → AllToks XmlTokOK t →
    ∃ t', xmlImage lang t = .ok t' ∧ readXTree lang (xmlTree t start).1 = .ok (t', t'.tokens)

/-- sentences and trees are numbered from 1, in order, all n-best trees of a sentence under its number -/
def XmlNumberingStatement : Prop :=
  ∀ (batch : List (List Tree)),
    (xmlOf batch).map (fun c => (c.sentence, c.id)) =
      (batch.zipIdx.map fun (trees, si) => (List.range trees.length).map fun ti => (si + 1, ti + 1)).flatten

/-! ### Jigg XML is self-contained -/

def attr (a : Attrs) (k : String) : Option Str := Dict.get? a (lit k)

def spanIds (c : JCcg) : List Str := c.spans.filterMap fun a => attr a "id"

def natOf (s : Option Str) : Option Nat :=
  match s with
  | none => none
  | some d => d.foldl (fun acc ch => match acc with
      | some n => if 48 ≤ ch ∧ ch ≤ 57 then some (n * 10 + (ch - 48)) else none
      | none => none) (some 0)

/-- the span with a given id -/
def spanOf (c : JCcg) (id : Str) : Option Attrs := findSpan c.spans id

/-- well-formedness of one `<ccg>` against the token ids of its sentence -/
structure CcgWellFormed (tokIds : List Str) (n : Nat) (c : JCcg) : Prop where
  ids_nodup : (spanIds c).Nodup
  every_span_has_id : ∀ a ∈ c.spans, ∃ id, attr a "id" = some id
  one_root : ∃ r, attr c.attrs "root" = some r ∧
    (c.spans.filter fun a => attr a "root" == some (lit "true")).map (fun a => attr a "id") = [some r]
  terminals_resolve : ∀ a ∈ c.spans, ∀ t, attr a "terminal" = some t → t ∈ tokIds
  children_resolve : ∀ a ∈ c.spans, ∀ ch, attr a "child" = some ch → ∀ k ∈ splitOn cSpace ch, k ∈ spanIds c
  leaf_or_internal : ∀ a ∈ c.spans, (attr a "terminal").isSome ≠ (attr a "child").isSome
  internal_has_rule : ∀ a ∈ c.spans, (attr a "child").isSome → (attr a "rule").isSome
  leaves_tile : (c.spans.filter fun a => (attr a "terminal").isSome).map
      (fun a => (natOf (attr a "begin"), natOf (attr a "end"))) = (List.range n).map fun i => (some i, some (i + 1))
  spans_cover_children : ∀ a ∈ c.spans, ∀ ch, attr a "child" = some ch →
    ∃ first last fa la, (splitOn cSpace ch).head? = some first ∧ (splitOn cSpace ch).getLast? = some last ∧
      spanOf c first = some fa ∧ spanOf c last = some la ∧
      attr a "begin" = attr fa "begin" ∧ attr a "end" = attr la "end"

def tokenIds (s : JSentence) : List Str := s.tokens.filterMap fun a => attr a "id"

/-- a Jigg XML document written by depccg is self-contained: per sentence the token ids are
    unique and every `<ccg>` is well-formed against them; span ids are unique across the n-best
    trees of a sentence, and sentences use disjoint id spaces -/
def JiggWellFormedStatement : Prop :=
  ∀ (useSymbol : Bool) (batch : List (List Tree)) (ss : List JSentence),
    (∀ trees ∈ batch, ∀ t ∈ trees, ∀ t' ∈ trees, t.numLeaves = t'.numLeaves) →
    jiggOf useSymbol batch = .ok ss →
    ss.length = batch.length ∧
    (∀ p ∈ ss.zip batch,
        p.1.ccgs.length = p.2.length ∧ (tokenIds p.1).Nodup ∧
        (∀ t ∈ p.2.head?, (tokenIds p.1).length = t.numLeaves) ∧
        (∀ q ∈ p.1.ccgs.zip p.2, CcgWellFormed (tokenIds p.1) q.2.numLeaves q.1) ∧
        ((p.1.ccgs.map spanIds).flatten).Nodup) ∧
    ((ss.map fun s => tokenIds s ++ (s.ccgs.map spanIds).flatten ++ s.ccgs.filterMap (fun c => attr c.attrs "id")).flatten).Nodup

/-- the token does not bring its own `id` entry (the encoder copies every token entry into the
    `<token>` element after its own `start`, `cat`, `id`, so such an entry would replace the id) -/
def NoIdKey (tok : Token) : Prop := ∀ kv ∈ tok, kv.1 ≠ lit "id"

/-- CORRECTED form of `JiggWellFormedStatement`, which is false as written: a token of the first
    tree of a sentence that carries an `id` entry overrides the encoder's token id, so two such
    tokens give duplicate token ids (see `C15.jigg_wellformed_original_false`).  The only change is
    the extra hypothesis on the tokens of the first tree of each sentence (the tree whose tokens
    the encoder prints); the conclusion is verbatim the original one. -/
def JiggWellFormedStatement' : Prop :=
  ∀ (useSymbol : Bool) (batch : List (List Tree)) (ss : List JSentence),
    (∀ trees ∈ batch, ∀ t ∈ trees, ∀ t' ∈ trees, t.numLeaves = t'.numLeaves) →
    (∀ trees ∈ batch, ∀ t ∈ trees.head?, AllToks NoIdKey t) →
    jiggOf useSymbol batch = .ok ss →
    ss.length = batch.length ∧
    (∀ p ∈ ss.zip batch,
        p.1.ccgs.length = p.2.length ∧ (tokenIds p.1).Nodup ∧
        (∀ t ∈ p.2.head?, (tokenIds p.1).length = t.numLeaves) ∧
        (∀ q ∈ p.1.ccgs.zip p.2, CcgWellFormed (tokenIds p.1) q.2.numLeaves q.1) ∧
        ((p.1.ccgs.map spanIds).flatten).Nodup) ∧
    ((ss.map fun s => tokenIds s ++ (s.ccgs.map spanIds).flatten ++ s.ccgs.filterMap (fun c => attr c.attrs "id")).flatten).Nodup

/-! ### reading Japanese Jigg XML back -/

/-- categories, shape and words -/
def shapeWords : Tree → Tree
  | .leaf c tok _ _ => .leaf c [(lit "word", Token.getD tok (lit "word") [])] [] []
  | .un c _ _ ch => .un c [] [] (shapeWords ch)
  | .bin c _ _ _ l r => .bin c [] [] true (shapeWords l) (shapeWords r)

/-- the token has a word and none of the names the Jigg encoder reserves; its keys are unique -/
def JiggTokOK (t : Token) : Prop :=
  (∃ w, Token.get? t (lit "word") = some w) ∧
  (∀ kv ∈ t, kv.1 ∉ [lit "start", lit "cat", lit "id", lit "surf", lit "base"]) ∧ (t.map (·.1)).Nodup

def JiggRoundtripJaStatement : Prop :=
  ∀ (trees : List Tree) (ss : List JSentence),
    trees ≠ [] →
    (∀ t ∈ trees, AllCats C05.WF t ∧ AllCats C14.AllTernary t ∧ AllToks JiggTokOK t) →
    (∀ t ∈ trees, ∀ t' ∈ trees, t.tokens = t'.tokens) →
    jiggOf true [trees] = .ok ss →
    ∃ rs : List (Tree × List Token), (match ss with | [s] => readJiggSentence .ja s | _ => .error .runtime) = .ok rs ∧
      rs.map (fun r => shapeWords r.1) = trees.map shapeWords

/-! ### ccg2lambda's tree builder -/

/-- the nested element is isomorphic to the derivation: categories in the multi-valued spelling,
    the rule attribute is the label (English) / symbol (`use_symbol`), leaves are terminals -/
inductive Iso (useSymbol : Bool) : Built → Tree → Prop
  | leaf (a : Attrs) (c : Cat) (tok : Token) (s y : Str) :
      attr a "category" = some (catMulti c) → (attr a "terminal").isSome → attr a "child" = none →
      Iso useSymbol (.node a []) (.leaf c tok s y)
  | un (a : Attrs) (b : Built) (c : Cat) (s y : Str) (ch : Tree) :
      attr a "category" = some (catMulti c) → attr a "rule" = some (if useSymbol then y else s) →
      Iso useSymbol b ch → Iso useSymbol (.node a [b]) (.un c s y ch)
  | bin (a : Attrs) (b1 b2 : Built) (c : Cat) (s y : Str) (h : Bool) (l r : Tree) :
      attr a "category" = some (catMulti c) → attr a "rule" = some (if useSymbol then y else s) →
      Iso useSymbol b1 l → Iso useSymbol b2 r → Iso useSymbol (.node a [b1, b2]) (.bin c s y h l r)

def BuildTreeIsoStatement : Prop :=
  ∀ (sid processed next : Nat) (useSymbol : Bool) (t : Tree) (root : Str),
    attr (jiggProcess sid processed useSymbol t next).1.attrs "root" = some root →
    ∃ b, buildTree (jiggProcess sid processed useSymbol t next).1.spans
            ((jiggProcess sid processed useSymbol t next).1.spans.length + 1) root = .ok b ∧ Iso useSymbol b t

/-! ### token names are normalised to identifiers free of logic punctuation -/

def logicPunct : List Nat := [46, cComma, cLPar, cRPar, 33, 45]   -- . , ( ) ! -

def NormalizeCleanStatement : Prop :=
  ∀ (s : Str), (normalizeToken s).head? = some cUnderscore ∧ ∀ c ∈ normalizeToken s, c ∉ logicPunct

/-- already normalised names (starting with `_`, no logic punctuation) are left alone -/
def NormalizeIdemStatement : Prop :=
  ∀ (s : Str), normalizeToken (normalizeToken s) = normalizeToken s

end Depccg.C15
