/-
  C11 for `depccg.parsing.run` itself (`Lazy.parsingRun`): chunking and worker processes on top of
  `_parsing.run` (`Lazy.runBatch`). Whatever `max_chunk_size` and `processes` are, the result is
  one entry per sentence, in input order, each the result of parsing that sentence alone.
-/
import Depccg.Props.LazyHistory
import Depccg.Proofs.C11Lemmas

namespace Depccg.LazyProps
open Depccg Search SearchProps GlueTree GlueRun Lazy GlueRunProps

/-- the result of one sentence parsed alone -/
abbrev solo (G : GlueRun.CatGrammar) (categories roots : List Cat) (cfg : Cfg) (maxLength : Option Nat)
    (x : SentIn) : Except Err SentResult :=
  (sentenceL pickHeap G (addRoots categories roots).2 cfg maxLength (GlueRun.init categories roots) x).1

/-- one `_parsing.run` call is `map solo` -/
theorem callResults_eq (G : GlueRun.CatGrammar) (categories roots : List Cat) (cfg : Cfg)
    (maxLength : Option Nat) (doc : List SentIn) (hnd : categories.Nodup)
    (hlex : ∀ x ∈ doc, LexOK categories x) :
    callResults G categories roots cfg maxLength doc = .ok (doc.map (solo G categories roots cfg maxLength)) := by
  obtain ⟨outs, gstF, hrun, hmap⟩ := batch_eq_map_solo G categories roots cfg maxLength doc hnd hlex
  unfold callResults
  rw [hrun]
  simp only [hmap]

theorem collect_map_ok {α β : Type} (f : List α → List β) (cs : List (List α)) :
    collect (cs.map fun c => (Except.ok (f c) : Except Err (List β))) = .ok (cs.map f).flatten := by
  induction cs with
  | nil => rfl
  | cons c cs ih =>
    simp only [List.map_cons, collect, ih, List.flatten_cons]

theorem flatten_map_map {α β : Type} (f : α → β) (cs : List (List α)) :
    (cs.map (List.map f)).flatten = cs.flatten.map f := by
  induction cs with
  | nil => rfl
  | cons c cs ih => simp only [List.map_cons, List.flatten_cons, List.map_append, ih]

theorem parsing_run_eq_map_solo : ParsingRunEqMapSoloStatement := by
  intro G categories roots cfg maxLength maxChunk procs doc hnd hlex
  unfold parsingRun
  split
  · exact callResults_eq G categories roots cfg maxLength doc hnd hlex
  · cases hc : Glue.chunks doc procs with
    | error e =>
      -- only the empty document cannot be chunked, and it is never longer than `max_chunk_size`
      exfalso
      rename_i hlen
      cases doc with
      | nil => exact hlen (Nat.zero_le _)
      | cons x xs =>
        obtain ⟨cs, hcs⟩ := C11.chunks_exists procs (List.cons_ne_nil x xs)
        rw [hcs] at hc
        cases hc
    | ok cs =>
      have hflat : cs.flatten = doc := C11.chunks_flatten hc
      have hmem : ∀ c ∈ cs, ∀ x ∈ c, LexOK categories x := by
        intro c hc' x hx
        apply hlex
        rw [← hflat]
        exact List.mem_flatten.2 ⟨c, hc', hx⟩
      have hmap : cs.map (callResults G categories roots cfg maxLength)
          = cs.map fun c => (Except.ok (c.map (solo G categories roots cfg maxLength)) : Except Err _) := by
        apply List.map_congr_left
        intro c hc'
        exact callResults_eq G categories roots cfg maxLength c hnd (hmem c hc')
      simp only []
      rw [hmap, collect_map_ok, flatten_map_map, hflat]

end Depccg.LazyProps
