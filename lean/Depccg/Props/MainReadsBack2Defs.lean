/-
  What the program writes can be read back, continued: `--format ptb` through the model of
  `read_ptb` over the whole text, `--format prolog` (English and Japanese program) through the
  Prolog term reader, in each case on the text `print_` emits, including the newline `print` adds.
-/
import Depccg.Props.CliDefs
import Depccg.Props.FileDefs
import Depccg.Props.C07PrologDefs

namespace Depccg.CliProps
open Depccg Str Search GlueRun Lazy Print Cli LazyProps Read FileProps C07

/-- ptb: one result per returned tree, in order, each under the `ID` line of its sentence, with the
    image of the line-level round trip (`ptb_roundtrip`) -/
def MainPtbReadsBackStatement : Prop :=
  ∀ (lang : Lang) (results : List SentResult) (text : Str),
    (∀ r ∈ results, ∀ ts ∈ scored r, PtbTreeOK lang ts.1) →
    printText Fmt.ptb results = .ok text →
    ∃ rs, fileImage (C20.ptbImage lang) (results.map scored) = .ok rs ∧ readPtbFile lang text = .ok rs

/-- prolog under the English program: sentence numbers and the views of all returned trees -/
def MainPrologEnReadsBackStatement : Prop :=
  ∀ (results : List SentResult) (text : Str),
    (∀ ts ∈ treesOnly results, ∀ t ∈ ts, TextProps.AllCats EnCatOK t ∧ TextProps.AllToks EnTokOK t) →
    printText Fmt.prologEn results = .ok text →
    decPrologEn text = some ((numbered (treesOnly results)).map fun p => (p.1, viewPrologEn p.2))

/-- prolog under the Japanese program -/
def MainPrologJaReadsBackStatement : Prop :=
  ∀ (results : List SentResult) (text : Str),
    (∀ ts ∈ treesOnly results, ∀ t ∈ ts, TextProps.AllCats JaCatOK t ∧ TextProps.AllToks JaTokOK t) →
    printText Fmt.prologJa results = .ok text →
    decPrologJa text = some ((numbered (treesOnly results)).map fun p => (p.1, viewPrologJa p.2))

end Depccg.CliProps
