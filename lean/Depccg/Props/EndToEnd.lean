/-
  From the id-level search to the trees the caller receives (C02 / C12 / C01 end to end).
  Property theorems only; definitions and statements are in Depccg/Props/EndToEndDefs.lean (unchanged).
-/
import Depccg.Props.EndToEndDefs
import Depccg.Props.C12Glue
import Depccg.Props.SearchBasics
import Depccg.Props.SearchOptimal
import Depccg.Props.C03
import Depccg.Props.C04

namespace Depccg.EndToEnd
open Depccg Search SearchProps GlueTree

theorem e2e_dcatId_eq (d : Deriv) : dcatId d = dcat d := by cases d <;> rfl

theorem e2e_mem_of_getElem? {α : Type} {l : List α} {i : Nat} {a : α} (h : l[i]? = some a) : a ∈ l :=
  List.mem_of_getElem? h

/-- every tree built by `retrieve_tree` from a licensed derivation is licensed by the rule
    functions themselves -/
theorem retrieved_tree_licensed : RetrievedTreeLicensedStatement := by
  intro G T tokens s cfg d t hrep hl
  obtain ⟨hbin, hun⟩ := hrep
  induction hl generalizing t with
  | leaf tk c sc ht hadm =>
    intro hret
    simp only [retrieve] at hret
    split at hret
    · rename_i cat tok hcat htok
      injection hret with hret
      subst hret
      refine ⟨TreeLicensed.leaf cat tok, ?_, ?_⟩
      · simpa [dcat, Tree.mkTerminal, Tree.cat] using hcat
      · simp [leafToks, Tree.mkTerminal, Tree.tokens, htok]
    · cases hret
    · cases hret
  | un c rid d hd hrule hspan ih =>
    intro hret
    simp only [retrieve] at hret
    split at hret
    · cases hret
    · rename_i child hch
      obtain ⟨ihl, ihc, iht⟩ := ih child hch
      split at hret
      · rename_i cat e hcat he
        injection hret with hret
        subst hret
        simp only [grammarOf, List.getElem?_map, Option.map_eq_some_iff] at hrule
        rw [e2e_dcatId_eq] at he
        obtain ⟨e', he', hec⟩ := hrule
        rw [he] at he'
        injection he' with he'
        subst he'
        obtain ⟨r, hr, hrc, hos, hoy⟩ := hun (dcat d) child.cat ihc rid e he
        rw [hec, hcat] at hrc
        injection hrc with hrc
        refine ⟨TreeLicensed.un cat _ _ child r ihl (e2e_mem_of_getElem? hr) hrc.symm hos.symm hoy.symm, ?_, ?_⟩
        · simpa [dcat, Tree.cat] using hcat
        · simpa [leafToks, Tree.tokens] using iht
      · cases hret
      · cases hret
  | bin c rid hl l r hlic hric hadj hrule ihl ihr =>
    intro hret
    simp only [retrieve] at hret
    split at hret
    · cases hret
    · rename_i tl htl
      obtain ⟨il, ilc, ilt⟩ := ihl tl htl
      split at hret
      · cases hret
      · rename_i tr htr
        obtain ⟨ir, irc, irt⟩ := ihr tr htr
        split at hret
        · rename_i cat e hcat he
          injection hret with hret
          subst hret
          simp only [grammarOf, List.getElem?_map, Option.map_eq_some_iff] at hrule
          rw [e2e_dcatId_eq, e2e_dcatId_eq] at he
          obtain ⟨e', he', hee⟩ := hrule
          rw [he] at he'
          injection he' with he'
          subst he'
          have hec : e.catId = c := by injection hee
          have heh : e.headLeft = hl := by injection hee
          obtain ⟨res, hr, hrc, hhl, hos, hoy⟩ := hbin (dcat l) (dcat r) tl.cat tr.cat ilc irc rid e he
          rw [hec, hcat] at hrc
          injection hrc with hrc
          refine ⟨TreeLicensed.bin cat _ _ _ tl tr res il ir (e2e_mem_of_getElem? hr) hrc.symm hos.symm
            hoy.symm hhl.symm, ?_, ?_⟩
          · simpa [dcat, Tree.cat] using hcat
          · simp [leafToks, Tree.tokens, List.filterMap_append, ilt, irt]
        · cases hret
        · cases hret

theorem e2e_filterMap_range (tokens : List Token) :
    (List.range tokens.length).filterMap (fun i => tokens[i]?) = tokens := by
  induction tokens with
  | nil => simp
  | cons a l ih =>
    rw [List.length_cons, List.range_succ_eq_map, List.filterMap_cons]
    simp only [List.getElem?_cons_zero, List.filterMap_map]
    congr 1

/-- every result of a run whose cache represents the rule functions becomes a tree licensed by
    those functions, spanning the sentence -/
theorem run_trees_licensed : RunTreesLicensedStatement := by
  intro pick G T tokens s cfg hp hrep hlen r hr t hret
  obtain ⟨⟨hlic, h0, hn, hroot⟩, hleaf, -, -⟩ := returned_valid pick (grammarOf T) s cfg hp r hr
  obtain ⟨h1, h2, h3⟩ := retrieved_tree_licensed G T tokens s cfg r.d t hrep hlic hret
  refine ⟨h1, ?_, ⟨dcat r.d, hroot, h2⟩⟩
  rw [h3, hleaf, ← hlen]
  exact e2e_filterMap_range tokens

/-- a binary result of the cache comes from the rule function's list -/
theorem e2e_bin_entry (G : CatGrammar) (T : Tables) (hk : RowsKnown T) (hrep : Represents G T)
    (x y : Nat) (r : Search.Rule) (hr : r ∈ (grammarOf T).bin x y) :
    ∃ cx cy, ∃ res ∈ G.bin cx cy, r.headLeft = res.headLeft := by
  simp only [grammarOf, List.mem_map] at hr
  obtain ⟨e, he, rfl⟩ := hr
  have hne : T.bin x y ≠ [] := List.ne_nil_of_mem he
  obtain ⟨hx, hy⟩ := hk x y hne
  obtain ⟨cx, hcx⟩ := Option.isSome_iff_exists.1 hx
  obtain ⟨cy, hcy⟩ := Option.isSome_iff_exists.1 hy
  obtain ⟨rid, hrid⟩ := List.getElem?_of_mem he
  obtain ⟨res, hres, -, hhl, -, -⟩ := hrep.1 x y cx cy hcx hcy rid e hrid
  exact ⟨cx, cy, res, e2e_mem_of_getElem? hres, hhl⟩

/-- a cache that represents a shipped grammar is head-uniform -/
theorem shipped_head_uniform : ShippedHeadUniformStatement := by
  intro seen table T hk
  constructor
  · intro hrep
    left
    intro x y r hr
    obtain ⟨cx, cy, res, hres, hhl⟩ := e2e_bin_entry _ T hk hrep x y r hr
    rw [hhl]
    simp only [enGrammar] at hres
    split at hres
    · rename_i rs hrs
      exact C03.en_head_left seen cx cy rs hrs res hres
    · cases hres
  · intro hrep
    right
    intro x y r hr
    obtain ⟨cx, cy, res, hres, hhl⟩ := e2e_bin_entry _ T hk hrep x y r hr
    rw [hhl]
    simp only [jaGrammar] at hres
    split at hres
    · rename_i rs hrs
      exact C04.ja_head_right seen cx cy rs hrs res hres
    · cases hres

/-- for both shipped grammars, the first tree returned has the maximum model score among all
    derivations the cache licenses -/
theorem shipped_first_parse_optimal : ShippedFirstParseOptimalStatement := by
  intro pick seen table T s cfg hp hs hpen hn hk hrep t rest hres d hd
  have hu : HeadUniform (grammarOf T) := by
    rcases hrep with h | h
    · exact (shipped_head_uniform seen table T hk).1 h
    · exact (shipped_head_uniform seen table T hk).2 h
  exact first_parse_optimal pick (grammarOf T) s cfg hp hs hpen hu hn t rest hres d hd

/-! ### non-vacuity -/

section Examples

private def exNP : Cat := .atom (Str.lit "NP") (.un none)
private def exS : Cat := .atom (Str.lit "S") (.un none)
/-- `S\NP` -/
private def exVP : Cat := .fn exS Str.cBSlash exNP

/-- ids 0 1 2 = `NP`, `S\NP`, `S`; the one cache row is `En.applyBinary none NP (S\NP)` -/
private def exT : Tables :=
  { cats := fun i => if i = 0 then some exNP else if i = 1 then some exVP else if i = 2 then some exS else none,
    bin := fun x y => if x = 0 ∧ y = 1 then [⟨2, true, Str.lit "ba", Str.lit "<"⟩] else [],
    un := fun _ => [] }

private theorem e2e_ex_row : (enGrammar none []).bin exNP exVP = [⟨exS, Str.lit "ba", Str.lit "<", true⟩] := by
  decide +kernel

example : Represents (enGrammar none []) exT ∧ RowsKnown exT := by
  refine ⟨⟨?_, ?_⟩, ?_⟩
  · intro x y cx cy hx hy rid e he
    by_cases hxy : x = 0 ∧ y = 1
    · obtain ⟨rfl, rfl⟩ := hxy
      simp only [exT, if_true, Option.some.injEq, and_self] at hx hy he
      simp only [Nat.one_ne_zero, if_false] at hy
      injection hy with hy
      subst hx
      subst hy
      rw [e2e_ex_row]
      cases rid with
      | zero =>
        simp only [List.getElem?_cons_zero, Option.some.injEq] at he
        subst he
        exact ⟨_, rfl, rfl, rfl, rfl, rfl⟩
      | succ n => simp at he
    · simp [exT, hxy] at he
  · intro x cx hx rid e he
    simp [exT] at he
  · intro x y hne
    by_cases hxy : x = 0 ∧ y = 1
    · obtain ⟨rfl, rfl⟩ := hxy
      simp [exT]
    · simp [exT, hxy] at hne

end Examples

end Depccg.EndToEnd
