import Depccg.Glue
