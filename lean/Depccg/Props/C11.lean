/-
  C11  Batch results align with inputs and do not depend on batch history.
  Theorems (statements in `C11Defs.lean`, lemmas in `Proofs/C11Lemmas.lean`).
-/
import Depccg.Props.C11Defs
import Depccg.Proofs.C11Lemmas

namespace Depccg.C11
open Depccg Search Glue

/-! ### chunking and the batch driver -/

theorem chunks_concat : ChunksConcatStatement := by
  intro α l k cs h
  exact chunks_flatten h

theorem chunks_count : ChunksCountStatement := by
  intro α l k cs h
  obtain ⟨hne, rfl⟩ := chunks_ok h
  have hsp := splits_pos (k := k) (length_pos_of_ne_nil' hne)
  exact ⟨chunksAux_length _ hsp _ _ _ (splits_mul_ge _ _), chunksAux_ne_nil _ hsp _ _⟩

theorem chunks_total : ChunksTotalStatement := by
  intro α l k hne
  exact chunks_exists k hne

theorem run_batch : RunBatchStatement := by
  intro σ ρ solo doc maxChunk procs
  exact runBatch_eq solo doc maxChunk procs

/-! ### the shape check -/

theorem shape_rejected : ShapeRejectedStatement := by
  intro numCats nDocs nScores sents h
  unfold typeCheck
  rcases h with h | h
  · simp [h]
  · rw [shapesOK_false h]
    split <;> rfl

theorem shape_accepted : ShapeAcceptedStatement := by
  intro numCats n sents h
  unfold typeCheck
  rw [shapesOK_true h]
  simp

/-! ### independence of the numbering of derived categories -/

theorem run_rename : RunRenameStatement := by
  intro σ g g' s s' cfg h
  obtain ⟨h1, h2, h3, _⟩ := run_rename_all h cfg
  exact ⟨h1, h2, h3⟩

/-! ### non-vacuity -/

example : chunks [0, 1, 2, 3, 4, 5, 6] 3 = .ok [[0, 1, 2], [3, 4, 5], [6]] := by decide
example : chunks [0, 1, 2, 3, 4, 5, 6] 0 = .ok [[0, 1, 2, 3, 4, 5, 6]] := by decide
example : chunks ([] : List Nat) 3 = .error .valueError := by decide
example : runBatch (· + 1) [0, 1, 2, 3, 4, 5, 6] 2 3 = .ok [1, 2, 3, 4, 5, 6, 7] := by decide
example : typeCheck 2 1 1 [⟨2, (2, 2), (2, 3)⟩] = .ok () := by decide
example : typeCheck 2 1 1 [⟨2, (2, 2), (2, 2)⟩] = .error .runtime := by decide
example : typeCheck 2 1 2 [⟨2, (2, 2), (2, 3)⟩] = .error .runtime := by decide

namespace Example

/-- swap the derived ids 2 and 5, identity elsewhere -/
def σ (c : Nat) : Nat := if c = 2 then 5 else if c = 5 then 2 else c

/-- view 1: the derived category is numbered 2 -/
def g : Grammar where
  bin x y := if x = 0 ∧ y = 1 then [⟨2, true⟩] else []
  un x := if x = 1 then [2] else []

/-- view 2: the same derived category is numbered 5 -/
def g' : Grammar where
  bin x y := if x = 0 ∧ y = 1 then [⟨5, true⟩] else []
  un x := if x = 1 then [5] else []

/-- two tokens, two lexical categories 0 and 1 -/
def s : Sent :=
  { n := 2, tags := [[3, 1], [2, 4]], deps := [[1, 0, 2], [0, 3, 0]], roots := [2],
    passes := [[true, true], [true, true]] }

def s' : Sent := { s with roots := [5] }

def cfg : Cfg := { penalty := 1, pruning := 2, nbest := 1, maxStep := 100 }

theorem σ_inj (a b : Nat) (h : σ a = σ b) : a = b := by
  unfold σ at h
  split at h <;> split at h <;> (try split at h) <;> (try split at h) <;> omega

theorem σ_eq_zero (x : Nat) : σ x = 0 ↔ x = 0 := by
  unfold σ; split <;> (try split) <;> omega

theorem σ_eq_one (x : Nat) : σ x = 1 ↔ x = 1 := by
  unfold σ; split <;> (try split) <;> omega

theorem renamed : Renamed σ g g' s s' where
  inj := σ_inj
  lex := by
    intro row hrow c hc
    have hlen : row.length = 2 := by
      simp only [s, List.mem_cons, List.not_mem_nil, or_false] at hrow
      rcases hrow with rfl | rfl <;> rfl
    unfold σ
    rw [if_neg (by omega), if_neg (by omega)]
  bin := by
    intro x y
    simp only [g, g', σ_eq_zero, σ_eq_one]
    split <;> rfl
  un := by
    intro x
    simp only [g, g', σ_eq_one]
    split <;> rfl
  n := rfl
  tags := rfl
  deps := rfl
  passes := rfl
  roots := by
    intro c
    have e : (σ c = 5) ↔ (c = 2) := by
      unfold σ; split <;> (try split) <;> omega
    simp only [s, s', List.elem_cons, List.elem_nil]
    by_cases hc : c = 2
    · subst hc; rfl
    · have h1 : (σ c == 5) = false := beq_eq_false_iff_ne.2 (fun h => hc (e.1 h))
      have h2 : (c == 2) = false := beq_eq_false_iff_ne.2 hc
      rw [h1, h2]

/-- both runs succeed, and the result differs exactly by the renumbering -/
example : (run g s cfg).results.map (·.cat) = [2] := by decide
example : (run g' s' cfg).results.map (·.cat) = [5] := by decide
example : (run g s cfg).results.map (·.d) = [.bin 2 0 true (.leaf 0 0) (.leaf 1 1)] := by decide
example : (run g' s' cfg).results.map (·.d) = [.bin 5 0 true (.leaf 0 0) (.leaf 1 1)] := by decide
example : (run g s cfg).steps = (run g' s' cfg).steps := by decide
example : (run g' s' cfg).results = (run g s cfg).results.map (renameItem σ) := by decide +kernel
example : (run g' s' cfg).popped = (run g s cfg).popped.map (renameItem σ) := by decide +kernel
/-- the renaming is not the identity on this run -/
example : (run g' s' cfg).results ≠ (run g s cfg).results := by decide

/-- the instance of the theorem -/
example : (run g' s' cfg).results = (run g s cfg).results.map (renameItem σ) :=
  (run_rename σ g g' s s' cfg renamed).1

end Example

end Depccg.C11
