/-
  C07 for the html format (depccg/printer/html.py): the MathML text of a derivation, read by the
  independent reader `readMathml`, gives back the nesting, the words, the rule labels and the
  (part, feature) segments of every category.  Statements: Depccg/Props/C07HtmlDefs.lean;
  helper lemmas: Depccg/Proofs/C07HtmlLemmas.lean.
-/
import Depccg.Props.C07HtmlDefs
import Depccg.Proofs.C07HtmlLemmas

namespace Depccg.C07
open Depccg Str Print

/-- escaped text contains no markup characters -/
theorem html_escape_safe : HtmlEscapeSafeStatement := html_escape_safe_all

/-- escaping loses nothing -/
theorem html_escape_roundtrip : HtmlEscapeRoundtripStatement := html_unesc_escape

/-- the html text of a tree decodes to the tree's skeleton -/
theorem html_decode : HtmlDecodeStatement := by
  intro t s h
  obtain ⟨sk, tl, hsk, hp⟩ := html_printed t s h
  exact ⟨sk, hsk, html_readMathml t s sk tl hp⟩

/-- two trees with the same html text have the same skeleton -/
theorem html_same_text_same_skeleton : HtmlSameTextSameSkeletonStatement := by
  intro t₁ t₂ s h₁ h₂
  obtain ⟨sk₁, hs₁, hr₁⟩ := html_decode t₁ s h₁
  obtain ⟨sk₂, hs₂, hr₂⟩ := html_decode t₂ s h₂
  rw [hr₁] at hr₂
  injection hr₂ with e
  rw [hs₁, hs₂, e]

/-- rendering succeeds when every leaf token has a `word` -/
theorem html_total : HtmlTotalStatement := by
  intro t
  induction t with
  | leaf c tok a b =>
    intro h
    have h1 := h tok (by simp [Tree.tokens])
    simp only [Token.get?] at h1
    cases hg : Dict.get? tok (lit "word") with
    | none => rw [hg] at h1; cases h1
    | some w => exact ⟨mathmlTerminal w (Cat.str c), by simp [mathmlSubtree, Token.get, hg]⟩
  | un c a b ch ih =>
    intro h
    obtain ⟨s, hs⟩ := ih (fun tok ht => h tok (by simpa [Tree.tokens] using ht))
    exact ⟨mathmlNonterminal s (Cat.str c) a, by simp [mathmlSubtree, hs]⟩
  | bin c a b hd l r ihl ihr =>
    intro h
    obtain ⟨sl, hl⟩ := ihl (fun tok ht => h tok (by simp [Tree.tokens, ht]))
    obtain ⟨sr, hr⟩ := ihr (fun tok ht => h tok (by simp [Tree.tokens, ht]))
    exact ⟨mathmlNonterminal (sl ++ sr) (Cat.str c) a, by simp [mathmlSubtree, hl, hr]⟩

/-! ### the conclusion of `html_decode` evaluated on a concrete tree -/

section examples

private def cNP : Cat := .atom (lit "NP") (.un none)
private def cN : Cat := .atom (lit "N") (.un none)
private def cS : Cat := .atom (lit "S") (.un (some (lit "dcl")))
private def cVP : Cat := .fn cS cBSlash cNP

/-- `A<&'b x` : (`N` ⇒ `NP`) + `S[dcl]\NP` ⇒ `S[dcl]`; a word with `<`, `&`, `'`, categories with a feature -/
private def exTree : Tree :=
  .bin cS (lit "ba") (lit "<") false
    (.un cNP (lit "lex") (lit "<un>") (.leaf cN (Token.ofWord (lit "A<&'b")) (lit "lex") (lit "<lex>")))
    (.leaf cVP (Token.ofWord (lit "x")) (lit "lex") (lit "<lex>"))

example : ∃ s sk, mathmlSubtree exTree = .ok s ∧ skelOf exTree = .ok sk ∧ readMathml s = some sk :=
  html_decodeCheck_sound exTree (by decide +kernel)

end examples

end Depccg.C07
