/-
  Corrected versions of the two statements of `LazyDefs.lean` that are false as written
  (`Props/Lazy.lean`: `lazy_eq_final_original_false`, `lazy_shipped_optimal_original_false`).

  Both fail for the same reason: a tag column of the score matrix that is not (yet) an id of the
  category table. A callback for an unknown id is a no-op and the search reads an empty row; the
  table may grow later (in the same sentence, or by later callbacks), the same request then stores
  a row, and the view of the final cache has results where the lazy search saw none.
  `_type_check` of parsing.pyx makes the number of tag columns the length of the caller's category
  list, so in `run` every column is an id of the table: that is the extra hypothesis.
  (`PickOK` is needed as well: an arbitrary `pick` may hand out items that were never pushed.)
-/
import Depccg.Props.LazyDefs
import Depccg.Props.SearchDefs

namespace Depccg.LazyProps
open Depccg Search SearchProps GlueTree GlueRun Lazy GlueRunProps

/-- `LazyEqFinalStatement` for an admissible agenda, from a state satisfying the glue invariant,
    with every tag column an id of the table -/
def LazyEqFinalStatement' : Prop :=
  ∀ (pick : Pick) (G : GlueRun.CatGrammar) (gst : GSt) (s : Sent) (cfg : Cfg) (later : List Call),
    PickOK pick → Inv' G gst → (∀ row ∈ s.tags, row.length ≤ gst.cats.length) →
    SameOutcome (runLWith pick G gst s cfg).1
      (runWith pick (view (later.foldl (GlueRun.step G) (runLWith pick G gst s cfg).2)) s cfg)

/-- `LazyShippedOptimalStatement` with every tag column an id of the table -/
def LazyShippedOptimalStatement' : Prop :=
  ∀ (pick : Pick) (seen : Option (List (Cat × Cat))) (table : List (Cat × List Cat)) (en : Bool)
    (gst : GSt) (s : Sent) (cfg : Cfg),
    let E := if en then EndToEnd.enGrammar seen table else EndToEnd.jaGrammar seen table
    let G : GlueRun.CatGrammar := { bin := E.bin, un := E.un }
    PickOK pick → SentOK s → 0 ≤ cfg.penalty → cfg.nbest = 1 → Inv' G gst →
    (∀ row ∈ s.tags, row.length ≤ gst.cats.length) →
    ∀ t rest, (runLWith pick G gst s cfg).1.results = t :: rest →
      ∀ d, LicensedRoot (view (runLWith pick G gst s cfg).2) s cfg d → modelScore s cfg d ≤ t.prio

end Depccg.LazyProps
