/-
  Type preservation all the way to what the caller receives: if the caller's categories, the root
  categories and the targets of the unary table are well-formed (C05.WF — for the shipped
  inventories and tables this is `Generated.shipped_all_wf`, C17), then every category of every
  tree that `depccg._parsing.run` returns — lexical, derived by the English or Japanese rules,
  numbered on the fly by the callbacks — is well-formed, hence (C05) prints to text that reads back
  to the same category.
-/
import Depccg.Props.LazyDefs
import Depccg.Props.ClosureDefs

namespace Depccg.OutputWF
open Depccg Search GlueTree GlueRun Lazy LazyProps C05 TextProps Closure

/-- the grammar the program uses for a language -/
def shipped (en : Bool) (seen : Option (List (Cat × Cat))) (table : List (Cat × List Cat)) : GlueRun.CatGrammar :=
  let E := if en then EndToEnd.enGrammar seen table else EndToEnd.jaGrammar seen table
  { bin := E.bin, un := E.un }

/-- every category of every tree returned for a sentence is well-formed, whatever the call did before -/
def LazyTreesWFStatement : Prop :=
  ∀ (en : Bool) (seen : Option (List (Cat × Cat))) (table : List (Cat × List Cat))
    (categories roots : List Cat) (calls : List Call) (cfg : Cfg) (maxLength : Option Nat) (x : SentIn)
    (trees : List (Tree × Int)),
    categories.Nodup → LexOK categories x → TableWF table →
    (∀ c ∈ categories, WF c) → (∀ c ∈ roots, WF c) →
    (sentenceL pickHeap (shipped en seen table) (addRoots categories roots).2 cfg maxLength
        (calls.foldl (GlueRun.step (shipped en seen table)) (GlueRun.init categories roots)) x).1 = .ok (.parsed trees) →
    ∀ ts ∈ trees, AllCats WF ts.1

/-- … hence every category that occurs in the output reads back from its own text -/
def OutputCatsRoundtripStatement : Prop :=
  ∀ (en : Bool) (seen : Option (List (Cat × Cat))) (table : List (Cat × List Cat))
    (categories roots : List Cat) (calls : List Call) (cfg : Cfg) (maxLength : Option Nat) (x : SentIn)
    (trees : List (Tree × Int)),
    categories.Nodup → LexOK categories x → TableWF table →
    (∀ c ∈ categories, WF c) → (∀ c ∈ roots, WF c) →
    (sentenceL pickHeap (shipped en seen table) (addRoots categories roots).2 cfg maxLength
        (calls.foldl (GlueRun.step (shipped en seen table)) (GlueRun.init categories roots)) x).1 = .ok (.parsed trees) →
    ∀ ts ∈ trees, AllCats (fun c => Cat.parse c.str = .ok c) ts.1

end Depccg.OutputWF
