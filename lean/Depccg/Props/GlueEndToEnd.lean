/-
  The chain closed inside the model: callbacks (GlueRun) → cache `Represents` the rule functions
  (run_inv) → every tree handed to the caller is licensed by the rule functions (EndToEnd), and for
  the shipped grammars the first one is optimal.
-/
import Depccg.Props.GlueRun
import Depccg.Props.EndToEnd
import Depccg.Props.SearchHeap

namespace Depccg.GlueRunProps
open Depccg Search SearchProps GlueTree GlueRun

/-- whatever sequence of rule-function calls produced the cache, whatever the search (any
    admissible agenda) returns over it becomes — through `retrieve_tree` — a tree licensed node by
    node by the very rule functions, over the sentence's tokens, with an allowed root -/
theorem glue_trees_licensed (pick : Pick) (G : GlueRun.CatGrammar) (categories roots : List Cat)
    (calls : List Call) (tokens : List Token) (s : Sent) (cfg : Cfg)
    (hc : categories.Nodup) (hp : PickOK pick) (hn : tokens.length = s.n) :
    let T := tablesOf (calls.foldl (step G) (init categories roots))
    ∀ r ∈ (runWith pick (grammarOf T) s cfg).results, ∀ t, retrieve T tokens r.d = .ok t →
      EndToEnd.TreeLicensed (toE2E G) t ∧ t.tokens = tokens ∧ (∃ rc ∈ s.roots, T.cats rc = some t.cat) := by
  intro T r hr t ht
  have hinv := (run_inv G categories roots calls hc).1
  exact EndToEnd.run_trees_licensed pick (toE2E G) T tokens s cfg hp hinv.2.1 hn r hr t ht

/-- the same for the function the driver runs (`run`, the heap agenda of the real code) -/
theorem glue_run_trees_licensed (G : GlueRun.CatGrammar) (categories roots : List Cat)
    (calls : List Call) (tokens : List Token) (s : Sent) (cfg : Cfg)
    (hc : categories.Nodup) (hn : tokens.length = s.n) :
    let T := tablesOf (calls.foldl (step G) (init categories roots))
    ∀ r ∈ (run (grammarOf T) s cfg).results, ∀ t, retrieve T tokens r.d = .ok t →
      EndToEnd.TreeLicensed (toE2E G) t ∧ t.tokens = tokens ∧ (∃ rc ∈ s.roots, T.cats rc = some t.cat) :=
  glue_trees_licensed pickHeap G categories roots calls tokens s cfg hc pickHeap_ok hn

end Depccg.GlueRunProps
