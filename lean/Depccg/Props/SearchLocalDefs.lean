/-
  Locality of the search: a run consults the grammar only at the pairs it actually expands, so two
  grammars that agree there give the same run. This is what justifies modelling the lazily filled
  rule cache of `parse_sentence` by a total function: the final cache, consulted where asked,
  and any total grammar extending it are indistinguishable to the search.
-/
import Depccg.Props.SearchDefs

namespace Depccg.SearchProps
open Depccg Search

/-- the grammar entries consulted when `it` is expanded against `chart` -/
def AgreeOn (g g' : Grammar) (s : Sent) (chart : List Item) (it : Item) : Prop :=
  ((s.n = 1 ∨ it.len ≠ s.n) → g'.un it.cat = g.un it.cat) ∧
  ∀ o ∈ chart, (o.start = it.stop → g'.bin it.cat o.cat = g.bin it.cat o.cat) ∧
               (o.stop = it.start → g'.bin o.cat it.cat = g.bin o.cat it.cat)

/-- the state after `k` iterations (or the final state, if the loop stopped earlier) -/
def stateAt (pick : Pick) (g : Grammar) (s : Sent) (cfg : Cfg) (k : Nat) : St :=
  loop pick g s cfg k (init pick s cfg)

/-- `g'` agrees with `g` wherever the run over `g` expands an item (items that are final, or dropped
    as already closed in 1-best mode, consult nothing) -/
def AgreeAlongRun (pick : Pick) (g g' : Grammar) (s : Sent) (cfg : Cfg) : Prop :=
  ∀ k, k < cfg.maxStep → let st := stateAt pick g s cfg k
    ¬ (cfg.nbest ≤ st.goal.length) →
    ∀ it rest, pick.pop st.agenda = some (it, rest) → it.fin = false →
      ¬ (cfg.nbest ≤ 1 ∧ inChart st.chart it = true) → AgreeOn g g' s st.chart it

/-- the run is the same: same pops in the same order, same results, same number of steps -/
def RunLocalStatement : Prop :=
  ∀ (pick : Pick) (g g' : Grammar) (s : Sent) (cfg : Cfg), AgreeAlongRun pick g g' s cfg →
    (runWith pick g' s cfg).results = (runWith pick g s cfg).results ∧
    (runWith pick g' s cfg).popped = (runWith pick g s cfg).popped ∧
    (runWith pick g' s cfg).steps = (runWith pick g s cfg).steps

/-- in particular a grammar may be changed arbitrarily at pairs of categories that never meet:
    if `g'` differs from `g` only at pairs `(x, y)` / categories `x` for which no popped item of
    the run over `g` has category `x`, the run is unchanged -/
def RunIgnoresUnseenStatement : Prop :=
  ∀ (pick : Pick) (g g' : Grammar) (s : Sent) (cfg : Cfg),
    (∀ x, (∃ it ∈ (runWith pick g s cfg).popped, it.cat = x) → g'.un x = g.un x) →
    (∀ x y, (∃ it ∈ (runWith pick g s cfg).popped, it.cat = x) → (∃ it ∈ (runWith pick g s cfg).popped, it.cat = y) →
        g'.bin x y = g.bin x y) →
    (runWith pick g' s cfg).results = (runWith pick g s cfg).results ∧
    (runWith pick g' s cfg).popped = (runWith pick g s cfg).popped

end Depccg.SearchProps
