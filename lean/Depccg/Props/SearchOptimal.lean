/-
  C01: optimality of the first parse and soundness of the failure report of the 1-best search,
  for a head-uniform grammar, from the history / cover invariants of
  `Depccg/Proofs/OptimalLemmas.lean`, plus a concrete instance.
-/
import Depccg.Props.SearchDefs
import Depccg.Props.SearchBasics
import Depccg.Proofs.OptimalLemmas

namespace Depccg.SearchProps
open Depccg Search

/-- C01 (optimality): the first parse returned by the 1-best search has the maximum model score
    among all licensed complete parses -/
theorem first_parse_optimal : FirstParseOptimalStatement := by
  intro pick g s cfg hp hs hpen hu hn t rest hres d hd
  obtain ⟨-, -, hopt⟩ := Opt1.final (pick := pick) (g := g) hp hu hs hpen hn
  change sortDesc (loop pick g s cfg cfg.maxStep (init pick s cfg)).goal = t :: rest at hres
  rcases hopt with ⟨hg, -, -⟩ | ⟨t', hg, hbest⟩
  · rw [hg, sortDesc_nil] at hres; cases hres
  · rw [hg, sortDesc_singleton] at hres
    cases hres
    exact hbest d hd

/-- C01 (failure): a 1-best search that stops with no result before its step budget is spent
    was given a sentence with no licensed complete parse -/
theorem failure_only_if_none : FailureOnlyIfNoneStatement := by
  intro pick g s cfg hp hs hpen hu hn hres hsteps
  obtain ⟨hok, -, hopt⟩ := Opt1.final (pick := pick) (g := g) hp hu hs hpen hn
  change sortDesc (loop pick g s cfg cfg.maxStep (init pick s cfg)).goal = [] at hres
  change (loop pick g s cfg cfg.maxStep (init pick s cfg)).steps < cfg.maxStep at hsteps
  rintro ⟨d, hd⟩
  rcases hopt with ⟨hg, hnf, hh⟩ | ⟨t', hg, -⟩
  · rcases loop_stuck_or_fuel (pick := pick) (g := g) (s := s) (cfg := cfg) cfg.maxStep (init pick s cfg)
      with hstuck | hfuel
    · rcases stepWith_none_iff.1 hstuck with hlen | hpick
      · rw [hg, hn] at hlen
        simp at hlen
      · obtain ⟨a, ha, -⟩ := root_bound hu hs hpen hok hh hnf hd
        rw [hp.eq_nil hpick] at ha
        cases ha
    · have h0 : (init pick s cfg).steps = 0 := rfl
      omega
  · rw [hg, sortDesc_singleton] at hres
    cases hres

/-! ### non-vacuity: the theorems on the concrete sentence of `SearchBasics.lean` -/

namespace Demo

def cfg1 : Cfg := { cfg with nbest := 1 }

theorem headUniform : HeadUniform g := by
  refine Or.inr ?_
  intro x y r hr
  simp only [g] at hr
  split at hr
  · rw [List.mem_singleton] at hr; subst hr; rfl
  · cases hr

/-- the 1-best run returns the `N ⇒ NP` parse with score 17 … -/
example : (run g s cfg1).results.map (fun r => (r.d, r.prio)) =
    [(.bin 2 0 false (.un 0 0 (.leaf 0 3)) (.leaf 1 1), 17)] := by decide

/-- … and no licensed complete parse of the sentence scores more than 17 -/
example : ∀ d, LicensedRoot g s cfg1 d → modelScore s cfg1 d ≤ 17 := by
  intro d hd
  have hprio : (runWith pickFirstMax g s cfg1).results.map Item.prio = [17] := by decide
  cases hres : (runWith pickFirstMax g s cfg1).results with
  | nil => rw [hres] at hprio; cases hprio
  | cons t rest =>
    rw [hres] at hprio
    simp only [List.map_cons, List.cons.injEq] at hprio
    have := first_parse_optimal pickFirstMax g s cfg1 pickFirstMax_ok sentOK (by decide) headUniform
      rfl t rest hres d hd
    omega

/-- a sentence whose tags cannot combine: the search fails, so no licensed complete parse exists -/
def sBad : Sent := { s with tags := [[1, -3, -5, -6], [-2, -7, -1, -4]], passes := [[true, false], [true, false]] }

theorem sentOK_bad : SentOK sBad := by simp [SentOK, sBad, s]

example : (run g sBad cfg1).results = [] ∧ (run g sBad cfg1).steps = 2 := by decide

example : ¬ ∃ d, LicensedRoot g sBad cfg1 d :=
  failure_only_if_none pickFirstMax g sBad cfg1 pickFirstMax_ok sentOK_bad (by decide) headUniform rfl
    (by decide) (by decide)

end Demo

end Depccg.SearchProps
