/-
  C18  Printing is an observation: it changes nothing and is repeatable.

  In the model every renderer is a function from the parse results to text (or an error): there
  is no state it could change.  What this file adds is the statement for *sequences* of
  renderings over the same objects in the style of a state machine `Objs → Out × Objs`, so that
  the shape of the claim matches the property; the real printers are tied to these functions by
  the correspondence, and their freedom from side effects on the real objects (Python aliasing:
  dict keys renamed in place, cached state) is what the C18 check observes directly.
-/
import Depccg.Print.More
import Depccg.Print.Xml

namespace Depccg.C18
open Depccg Str Print

/-- the output formats of the model -/
inductive Fmt where
  | auto | autoExt | conll | ptb | ja | deriv | prologEn | prologJa | xml | jigg (useSymbol : Bool) | json
  deriving DecidableEq, Repr

/-- what a rendering yields; XML / json documents are kept abstract -/
inductive Out where
  | text (s : Except Err Str)
  | xml (d : List Xml.CcgElem)
  | jigg (d : Except Err (List Xml.JSentence))
  | json (d : List (List JTree))

abbrev Objs := List (List (Tree × Str))      -- n-best lists of (tree, formatted score)

def trees (o : Objs) : List (List Tree) := o.map (·.map (·.1))

/-- one rendering: output and the objects afterwards -/
def render (f : Fmt) (o : Objs) : Out × Objs :=
  (match f with
   | .auto => .text (toStringLines autoOf false o)
   | .autoExt => .text (toStringLines autoExtOf false o)
   | .conll => .text (toStringLines conllOf true o)
   | .ptb => .text (toStringLines ptbOf false o)
   | .ja => .text (toStringLines jaOf false o)
   | .deriv => .text (toStringLines derivOf false o)
   | .prologEn => .text (prologEn (trees o))
   | .prologJa => .text (prologJa (trees o))
   | .xml => .xml (Xml.xmlOf (trees o))
   | .jigg u => .jigg (Xml.jiggOf u (trees o))
   | .json => .json ((trees o).map (·.map jsonOf)),
   o)

/-- rendering leaves every tree, category and token exactly as it was -/
theorem render_pure (f : Fmt) (o : Objs) : (render f o).2 = o := rfl

/-- a sequence of renderings over the same objects -/
def renderSeq : List Fmt → Objs → List Out × Objs
  | [], o => ([], o)
  | f :: fs, o =>
    let (out, o1) := render f o
    let (outs, o2) := renderSeq fs o1
    (out :: outs, o2)

/-- rendering the same results again, in the same or any other format and in any order of
    formats, gives the same output as rendering a fresh copy; the objects are unchanged -/
theorem any_sequence (fs : List Fmt) (o : Objs) :
    (renderSeq fs o).1 = fs.map (fun f => (render f o).1) ∧ (renderSeq fs o).2 = o := by
  induction fs with
  | nil => exact ⟨rfl, rfl⟩
  | cons f fs ih =>
    simp only [renderSeq, render_pure, List.map_cons]
    exact ⟨by rw [ih.1], ih.2⟩

/-- in particular a format rendered after any prefix of other renderings gives its first output -/
theorem repeatable (pre : List Fmt) (f : Fmt) (o : Objs) :
    (render f (renderSeq pre o).2).1 = (render f o).1 := by
  rw [(any_sequence pre o).2]

end Depccg.C18
