import Depccg.Tree
