/-
  C19  Whatever the parser can return can be rendered in every offered format.   Definitions, statements.
-/
import Depccg.Print.More
import Depccg.Print.Xml
import Depccg.Props.C04Defs
import Depccg.Props.TextDefs

namespace Depccg.C19
open Depccg Str Print TextProps

/-- the labels (`op_string`) of English binary results, from the closure theorem C03.en_labels_closed -/
def enBinaryLabels : List Str := C03.enLabels.map (·.1)

/-- the symbols (`op_symbol`) of Japanese results, binary (C04.ja_labels_closed) and unary
    (C04.ja_unary_labels_closed) -/
def jaSymbols : List Str := C04.jaLabels.map (·.2) ++ C04.jaUnaryLabels

/-- the formats the model knows, by the CLI's names -/
def knownFormats : List Str :=
  [lit "auto", lit "auto_extended", lit "deriv", lit "xml", lit "conll", lit "html", lit "prolog", lit "jigg_xml",
   lit "ptb", lit "ccg2lambda", lit "jigg_xml_ccg2lambda", lit "json", lit "ja"]

def HasWord (t : Token) : Prop := ∃ w, Token.get? t (lit "word") = some w

/-- binary labels are ones the English Prolog printer knows, and nodes labelled `conj` have a
    functor category (true of every English result by C03.en_sound: `Y\Y` or `NP\NP`) -/
def EnPrologOK : Tree → Prop
  | .leaf .. => True
  | .un _ _ _ ch => EnPrologOK ch
  | .bin c s _ _ l r =>
    (Dict.get? Print.opMapping s).isSome ∧ (s = lit "conj" → c.isFunctor = true) ∧ EnPrologOK l ∧ EnPrologOK r

def JaPrologOK : Tree → Prop
  | .leaf .. => True
  | .un _ _ y ch => (Dict.get? Print.jaCombinatorTable y).isSome ∧ JaPrologOK ch
  | .bin _ _ y _ l r => (Dict.get? Print.jaCombinatorTable y).isSome ∧ JaPrologOK l ∧ JaPrologOK r

/-- the line / document formats never fail on trees whose tokens have a word -/
def TextRenderTotalStatement : Prop :=
  ∀ (t : Tree), AllToks HasWord t →
    (∃ s, autoOf t = .ok s) ∧ (∃ s, autoExtOf t = .ok s) ∧ (∃ s, conllOf t = .ok s) ∧ (∃ s, ptbOf t = .ok s) ∧
    (∃ s, jaOf t = .ok s) ∧ (∃ s, derivOf t = .ok s)

/-- Jigg XML never fails on non-empty n-best lists (C&C XML and json are total functions) -/
def JiggRenderTotalStatement : Prop :=
  ∀ (useSymbol : Bool) (batch : List (List Tree)), (∀ trees ∈ batch, trees ≠ []) → ∃ ss, Xml.jiggOf useSymbol batch = .ok ss

def PrologEnTotalStatement : Prop :=
  ∀ (batch : List (List Tree)), (∀ trees ∈ batch, ∀ t ∈ trees, AllToks HasWord t ∧ EnPrologOK t) → ∃ s, prologEn batch = .ok s

def PrologJaTotalStatement : Prop :=
  ∀ (batch : List (List Tree)), (∀ trees ∈ batch, ∀ t ∈ trees, AllToks HasWord t ∧ JaPrologOK t) → ∃ s, prologJa batch = .ok s

/-- the record-by-record formats render a batch iff they render each tree: one sentence never
    prevents the others -/
def BatchTotalStatement : Prop :=
  ∀ (fmt : Tree → Except Err Str) (conll : Bool) (batch : List (List (Tree × Str))),
    (∀ trees ∈ batch, ∀ p ∈ trees, ∃ s, fmt p.1 = .ok s) → ∃ s, toStringLines fmt conll batch = .ok s

/-- the failure placeholder `Tree.make_terminal("FAILED", NP)` -/
def placeholder : Tree := Tree.mkTerminal [(lit "word", lit "FAILED")] (.atom (lit "NP") (.un none))

/-- … renders in every format -/
def PlaceholderRendersStatement : Prop :=
  AllToks HasWord placeholder ∧ EnPrologOK placeholder ∧ JaPrologOK placeholder

/-- a tree whose binary nodes carry labels of English grammar results (and categories of those
    results) is acceptable to the English Prolog printer; likewise for Japanese symbols -/
def EnLabelsOKStatement : Prop :=
  ∀ s ∈ enBinaryLabels, (Dict.get? Print.opMapping s).isSome

def JaSymbolsOKStatement : Prop :=
  ∀ y ∈ jaSymbols, (Dict.get? Print.jaCombinatorTable y).isSome

end Depccg.C19
