/-
  C14  Rule application is a pure, total, reproducible function; filters only remove.
  Theorems (statements in Props/C14Defs.lean, lemmas in Proofs/C14Lemmas.lean).
-/
import Depccg.Props.C14Defs
import Depccg.Proofs.C14Lemmas

namespace Depccg.C14
open Depccg Cat Str Unify

/-- English: the seen set only gates; the key is the pair with `X` and `nb` erased. -/
theorem seen_gate_en : SeenGateEnStatement := by
  intro S x y sx sy hx hy
  rw [clear_nbX_eq] at hx hy
  cases hx; cases hy
  rw [applyBinary_eq, applyBinary_eq]
  simp

/-- Japanese: the seen set only gates; the key is the raw pair. -/
theorem seen_gate_ja : SeenGateJaStatement := by
  intro S x y
  simp only [Ja.applyBinary, inSeen]
  simp

/-- `clear_features("X","nb")` and `clear_features("nb")` never raise. -/
theorem clear_total : ClearTotalStatement := fun x =>
  ⟨⟨_, clear_nbX_eq x⟩, ⟨_, clear_nb_eq x⟩⟩

/-- English results do not depend on `nb` marks (clearing `nb` is idempotent and absorbed by clearing `X`,`nb`). -/
theorem nb_irrelevant : NbIrrelevantStatement := by
  intro seen x y x' y' hx hy
  rw [clear_nb_eq] at hx hy
  cases hx; cases hy
  rw [applyBinary_eq, applyBinary_eq]
  simp only [erase_nb_idem, erase_nbX_nb]

/-- English unary rules return exactly the configured targets, in order. -/
theorem unary_exact_en : UnaryExactEnStatement := by
  intro T x
  simp only [En.applyUnary, lookup]
  cases h : T.find? fun p => Cat.pyEq p.1 x with
  | none => rfl
  | some p =>
    obtain ⟨a, targets⟩ := p
    simp [List.map_map, Function.comp_def]

/-- Japanese unary rules return exactly the configured targets, in order. -/
theorem unary_exact_ja : UnaryExactJaStatement := by
  intro T x rs h
  simp only [Ja.applyUnary] at h
  simp only [lookup]
  cases hf : T.find? fun p => Cat.pyEq p.1 x with
  | none => rw [hf] at h; cases h; rfl
  | some p =>
    rw [hf] at h
    obtain ⟨a, targets⟩ := p
    cases targets with
    | nil => cases h; rfl
    | cons t ts =>
      simp only at h
      cases hs : Ja.unaryRuleSymbol x with
      | error e => rw [hs] at h; cases h
      | ok sym =>
        rw [hs] at h; cases h
        simp [List.map_map, Function.comp_def]

/-- Japanese unary rules do not raise when the result atom carries a three-part feature. -/
theorem unary_total_ja : UnaryTotalJaStatement := by
  intro T x b k1 v1 k2 v2 k3 v3 h
  obtain ⟨s, hs⟩ := unaryRuleSymbol_ok x b k1 v1 k2 v2 k3 v3 h
  simp only [Ja.applyUnary]
  cases hf : T.find? fun p => Cat.pyEq p.1 x with
  | none => exact ⟨_, rfl⟩
  | some p =>
    obtain ⟨a, targets⟩ := p
    cases targets with
    | nil => exact ⟨_, rfl⟩
    | cons t ts => simp only [hs]; exact ⟨_, rfl⟩

/-- The English binary rules never raise on unary-feature categories with non-empty atom names. -/
theorem total_en : TotalEnStatement := by
  intro seen x y hx hy nx ny
  have h := en_all (erase_kind_false isNb (allUnary_kind hx)) (erase_kind_false isNb (allUnary_kind hy))
    (erase_nonEmpty isNb nx) (erase_nonEmpty isNb ny)
  rw [applyBinary_eq]
  cases seen with
  | none => exact h
  | some S =>
    simp only []
    split
    · exact h
    · exact ⟨_, rfl⟩

/-- The Japanese binary rules never raise on three-part-feature categories. -/
theorem total_ja : TotalJaStatement := by
  intro seen x y hx hy
  have h := ja_all (allTernary_kind hx) (allTernary_kind hy)
  cases seen with
  | none => exact h
  | some S =>
    simp only [Ja.applyBinary]
    split
    · exact h
    · exact ⟨_, rfl⟩

/-- Success of matching is independent of the visiting order (the no-exception hypotheses are not even needed). -/
theorem ok_order_independent : OkOrderIndependentStatement := by
  intro ord px py x y hord _ _
  constructor
  · rintro ⟨σ, h⟩
    obtain ⟨cats1, xf, yf, h1, h2, ha⟩ := (unifyOrd_some_iff ..).1 h
    obtain ⟨m', hm'⟩ := (agree_some_perm (hord (sharedVars xf yf)) [] []).1 ⟨_, ha⟩
    exact ⟨⟨σ.cats, m'⟩, (unifyOrd_some_iff ..).2 ⟨cats1, xf, yf, h1, h2, hm'⟩⟩
  · rintro ⟨σ, h⟩
    obtain ⟨cats1, xf, yf, h1, h2, ha⟩ := (unifyOrd_some_iff ..).1 h
    obtain ⟨m', hm'⟩ := (agree_some_perm (hord (sharedVars xf yf)) [] []).2 ⟨_, ha⟩
    exact ⟨⟨σ.cats, m'⟩, (unifyOrd_some_iff ..).2 ⟨cats1, xf, yf, h1, h2, hm'⟩⟩

/-- Without a conflict the bindings are independent of the visiting order. -/
theorem order_irrelevant : OrderIrrelevantStatement := by
  intro ord px py x y k hord hnc σ τ hσ hτ
  obtain ⟨cats1, xf, yf, h1, h2, ha⟩ := (unifyOrd_some_iff ..).1 hσ
  obtain ⟨cats1', xf', yf', h1', h2', ha'⟩ := (unifyOrd_some_iff ..).1 hτ
  rw [h1] at h1'; cases h1'
  rw [h2] at h2'
  have ec : σ.cats = τ.cats := by injection h2' with _ h; injection h
  have ey : yf = yf' := by injection h2' with _ h; injection h
  subst ey
  have hc : NoConf xf yf (sharedVars xf yf) := hnc cats1 xf σ.cats yf h1 h2
  have hperm := hord (sharedVars xf yf)
  have hm : ∀ f, Dict.get? σ.mapping f = Dict.get? τ.mapping f := by
    intro f
    apply Option.ext
    intro g
    rw [agree_lookup_nil hc (fun v hv => hperm.mem_iff.1 hv) ha,
        agree_lookup_nil hc (fun v hv => hv) ha']
    exact ⟨fun ⟨v, hv, h⟩ => ⟨v, hperm.mem_iff.1 hv, h⟩, fun ⟨v, hv, h⟩ => ⟨v, hperm.mem_iff.2 hv, h⟩⟩
  simp only [Bindings.get, ec]
  cases Dict.get? τ.cats k with
  | none => rfl
  | some c => simp only [subst_congr hm]

/-- With a conflict the order matters: `S[X]/(S[X]\NP[X])` applied to `S[dcl]\NP[b]`. -/
theorem order_matters_witness : OrderMattersWitnessStatement := by
  refine ⟨wpx, wpy, wx, wy, ⟨[([97], wS "X"), ([98], wy)], [(.un (some (lit "X")), .un (some (lit "b")))]⟩, ⟨[([97], wS "X"), ([98], wy)], [(.un (some (lit "X")), .un (some (lit "dcl")))]⟩, ?_, ?_, ?_⟩
  · rfl
  · rfl
  · decide

/-! ### non-vacuity -/

section examples

/-- `S[dcl]/NP[nb]` and `NP` -/
private def exX : Cat := .fn (wS "dcl") cSlash (wNP "nb")
private def exY : Cat := .atom (lit "NP") (.un none)
/-- the key under which the pair is looked up: `S[dcl]/NP` , `NP` -/
private def exKey : Cat × Cat := (.fn (wS "dcl") cSlash (.atom (lit "NP") (.un none)), exY)

-- the hypotheses of `seen_gate_en` are met and the gate is open for the erased pair ...
example : Cat.clear nbX exX = .ok exKey.1 ∧ Cat.clear nbX exY = .ok exKey.2 := by decide
example : inSeen [exKey] exKey.1 exKey.2 = true := by decide
example : En.applyBinary (some [exKey]) exX exY =
    .ok [⟨wS "dcl", lit "fa", lit ">", true⟩] := by decide +kernel
-- ... closed for the raw pair (the `nb` mark is not part of the key) and for an empty set
example : inSeen [(exX, exY)] exKey.1 exKey.2 = false := by decide
example : En.applyBinary (some [(exX, exY)]) exX exY = .ok [] := by decide +kernel
example : En.applyBinary (some []) exX exY = .ok [] := by decide +kernel
-- Japanese: the raw pair is the key
example : Ja.applyBinary (some [(exX, exY)]) exX exY =
    .ok [⟨wS "dcl", lit "fa", lit ">", false⟩] := by decide +kernel
example : Ja.applyBinary (some [exKey]) exX exY = .ok [] := by decide +kernel

-- the hypotheses of `total_en` / `total_ja` are satisfiable
example : AllUnary exX ∧ AllUnary exY ∧ NonEmptyBases exX ∧ NonEmptyBases exY :=
  ⟨⟨trivial, trivial⟩, trivial, ⟨(by decide : lit "S" ≠ []), (by decide : lit "NP" ≠ [])⟩,
    (by decide : lit "NP" ≠ [])⟩
example : AllTernary (Ja.triCat "S" "mod" "nm" "form" "base" "fin" "f") := trivial
-- and they are needed: an empty atom name makes `_is_punct` raise, mixed feature systems make
-- `unifies` raise
example : En.applyBinary none (.atom [] (.un none)) exY = .error .indexError := by decide +kernel
example : Ja.applyBinary none (.fn (Ja.triCat "S" "mod" "nm" "form" "base" "fin" "f") cSlash
      (Ja.triCat "NP" "case" "ga" "mod" "nm" "fin" "f")) exY = .error .attributeError := by
  decide +kernel

-- unary rules: a table with a hit
example : (En.applyUnary [(exY, [exX, exY])] exY).map (·.cat) = [exX, exY] := by decide +kernel
example : Ja.resultAtom (.fn (Ja.triCat "S" "mod" "adn" "form" "base" "fin" "f") cSlash exY) =
    Ja.triCat "S" "mod" "adn" "form" "base" "fin" "f" := rfl

-- `NoConflict` fails for the witness pair (so the hypothesis of `order_irrelevant` is not idle) ...
example : ¬ NoConflict wpx wpy wx wy := by
  intro h
  obtain ⟨px, py, x, y, σ, τ, hσ, hτ, hne⟩ := order_matters_witness
  -- the witnesses are the ones given in the proof above; restate them explicitly
  have h1 : unifyOrd List.reverse wpx wpy wx wy =
      .ok (some ⟨[([97], wS "X"), ([98], wy)], [(.un (some (lit "X")), .un (some (lit "dcl")))]⟩) := rfl
  have h2 : unify wpx wpy wx wy =
      .ok (some ⟨[([97], wS "X"), ([98], wy)], [(.un (some (lit "X")), .un (some (lit "b")))]⟩) := rfl
  have := order_irrelevant List.reverse wpx wpy wx wy [97] (fun l => List.reverse_perm l) h _ _ h1 h2
  revert this
  decide

-- ... and holds, with a successful match that instantiates a variable, for `S[X]/NP[X]` applied
-- to `NP[b]`
example : NoConflict wpx wpy (.fn (wS "X") cSlash (wNP "X")) (wNP "b") ∧
    ∃ σ, unify wpx wpy (.fn (wS "X") cSlash (wNP "X")) (wNP "b") = .ok (some σ) ∧
      σ.get [97] = .ok (wS "b") := by
  refine ⟨?_, ⟨_, _⟩, rfl, by decide⟩
  intro cats1 xf cats2 yf h1 h2
  have e1 : scan wpx (.fn (wS "X") cSlash (wNP "X")) [] [] =
      (true, [([97], wS "X"), ([98], wNP "X")],
        [([97], .un (some (lit "X"))), ([98], .un (some (lit "X")))]) := by decide
  rw [e1] at h1
  injection h1 with _ h1; injection h1 with hc hx
  subst hc; subst hx
  have e2 : scan wpy (wNP "b") [([97], wS "X"), ([98], wNP "X")] [] =
      (true, [([97], wS "X"), ([98], wNP "b")], [([98], .un (some (lit "b")))]) := by decide
  rw [e2] at h2
  injection h2 with _ h2; injection h2 with hc hy
  subst hc; subst hy
  have sv : sharedVars [([97], Feat.un (some (lit "X"))), ([98], .un (some (lit "X")))]
      [([98], .un (some (lit "b")))] = [[98]] := by decide
  rw [sv]
  intro v hv w hw a b ha hb _
  rw [List.mem_singleton] at hv hw
  subst hv; subst hw
  rw [ha] at hb
  injection hb with hb
  rw [hb]

end examples

end Depccg.C14
