/-
  The one-line-per-tree formats (`auto`, `auto_extended`, `ptb`, `ja`) at the level of the whole
  output: the reader `Read.decLineDoc` (Depccg/Read/LineDoc.lean) splits the text that
  `to_string(…, format)` / `print_` emits into its records — sentence number, score text, tree line —
  one per returned tree, in order.   Statements: Depccg/Props/MainLineDefs.lean; helper lemmas:
  Depccg/Proofs/MainLineLemmas.lean.
-/
import Depccg.Props.MainLineDefs
import Depccg.Proofs.MainLineLemmas

namespace Depccg.CliProps
open Depccg Str Search GlueRun Lazy Print Cli LazyProps Read

/-- the text of `to_string(batch, format)` for a one-line format is read back record by record -/
theorem line_doc_decode : LineDocDecodeStatement := by
  intro fmt batch text h hp
  obtain ⟨out, hf, hrun⟩ := ml_run_doc fmt batch text h hp
  have := hrun [] rfl
  rw [List.append_nil] at this
  exact ⟨out, this, hf⟩

/-- what `main` prints under `--format auto | auto_extended | ptb | ja` (the text of `to_string` and
    the newline of `print`) is read back: one record per returned tree, named by sentence, with its
    score text and its line -/
theorem main_line_reads_back : MainLineReadsBackStatement := by
  intro f results text hl hok hp
  have hp' : (match toStringLines f.fn false (results.map scored) with
      | .error e => Except.error e
      | .ok s => Except.ok (s ++ [10])) = Except.ok text := by
    cases f <;> first | exact hp | cases hl
  cases ht : toStringLines f.fn false (results.map scored) with
  | error e => rw [ht] at hp'; cases hp'
  | ok t0 =>
    rw [ht] at hp'
    cases hp'
    have hb : ∀ ts ∈ results.map scored, ∀ p ∈ ts,
        10 ∉ p.2 ∧ ∀ s, f.fn p.1 = .ok s → 10 ∉ s := by
      intro ts hts p hpm
      obtain ⟨r, hr, rfl⟩ := List.mem_map.1 hts
      exact ⟨mc_scored_no10 r p hpm, hok r hr p hpm⟩
    obtain ⟨out, hf, hrun⟩ := ml_run_doc f.fn (results.map scored) t0 hb ht
    have := hrun [[]] rfl
    refine ⟨out, ?_, hf⟩
    rw [decLineDoc, C08.splitOn_append_sep, FileProps.fl_splitOn_nil, this]

/-! ### evaluated: two sentences, the first with two trees, the second failed (the placeholder,
  score text `-inf`), printed in the AUTO format -/

section examples

private def lN : Cat := .atom (lit "N") (.un none)
private def lNP : Cat := .atom (lit "NP") (.un none)
private def lS : Cat := .atom (lit "S") (.un (some (lit "dcl")))
private def lVP : Cat := .fn lS cBSlash lNP

private def lSleeps : Tree :=
  .leaf lVP [(lit "word", lit "sleeps"), (lit "lemma", lit "sleep"), (lit "pos", lit "VBZ")]
    (lit "lex") (lit "<lex>")

private def lTree1 : Tree :=
  .bin lS (lit "ba") (lit "<") false (.leaf lNP [(lit "word", lit "Kim")] (lit "lex") (lit "<lex>")) lSleeps

private def lTree2 : Tree :=
  .bin lS (lit "ba") (lit "<") true
    (.un lNP (lit "lex") (lit "<un>") (.leaf lN [(lit "word", lit "Kim")] (lit "lex") (lit "<lex>"))) lSleeps

private def lResults : List SentResult := [.parsed [(lTree1, -32), (lTree2, -100)], .failed]

private def lLine1 : Str :=
  lit "(<T S[dcl] 1 2> (<L NP POS POS Kim NP>) (<L S[dcl]\\NP VBZ VBZ sleeps S[dcl]\\NP>) )"
private def lLine2 : Str :=
  lit "(<T S[dcl] 0 2> (<T NP 0 1> (<L N POS POS Kim N>) ) (<L S[dcl]\\NP VBZ VBZ sleeps S[dcl]\\NP>) )"
private def lLine3 : Str := lit "(<L NP POS POS FAILED NP>)"

private def lText : Str :=
  lit "ID=1, log probability=-0.50000000\n" ++ lLine1 ++ lit "\n" ++
  lit "ID=1, log probability=-1.56250000\n" ++ lLine2 ++ lit "\n" ++
  lit "ID=2, log probability=-inf\n" ++ lLine3 ++ lit "\n" ++
  lit "\n"

/-- the reader, run on the text the program prints for the batch -/
example : printText Fmt.auto lResults = .ok lText ∧
    decLineDoc lText =
      some [(1, lit "-0.50000000", lLine1), (1, lit "-1.56250000", lLine2), (2, lit "-inf", lLine3)] := by
  decide +kernel

/-- the reader is strict: text before the first record, a sentence number with a leading zero, a
    header without `, log probability=`, a header without a tree line, an empty line between two
    records are rejected; a tree line that looks like a header is still a tree line; empty lines at
    the end are skipped -/
example : decLineDoc (lit "x\nID=1, log probability=0\nt\n") = none := by decide +kernel
example : decLineDoc (lit "ID=01, log probability=0\nt\n") = none := by decide +kernel
example : decLineDoc (lit "ID=1 log probability=0\nt\n") = none := by decide +kernel
example : decLineDoc (lit "ID=1, log probability=0") = none := by decide +kernel
example : decLineDoc (lit "ID=1, log probability=0\nt\n\nID=2, log probability=0\nu\n") = none := by
  decide +kernel
example : decLineDoc (lit "ID=1, log probability=, log probability=0\nID=7, log probability=1\nID=2, log probability=\n\n\n\n") =
    some [(1, lit ", log probability=0", lit "ID=7, log probability=1"), (2, [], [])] := by
  decide +kernel

end examples

end Depccg.CliProps
