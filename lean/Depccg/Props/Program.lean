/-
  The program from its configuration on. Statements in `Depccg/Props/ProgramDefs.lean`, helper
  lemmas in `Depccg/Proofs/ProgramParseLemmas.lean` (the reader), `ProgramClosureLemmas.lean` (the
  English grammar preserves what the reader returns) and `ProgramLemmas.lean` (the program).

  `ParseWFStatement` is false as written: a token `[` or `]` outside a group `name [ feature ]` is
  read as an atom name, and any token between `[` and `]` is taken as the feature text:

    * `"["`    reads to the atom named `[`              — the name is not a plain token;
    * `"S[/]"` reads to the atom `S` with the feature `/` — the feature is not a plain token.

  What the reader guarantees is `ReadWF` (`C05.WF` plus exactly these two things), which is exactly
  the range of the reader, and on which printing and reading is the identity
  (`parse_wf_partial`); `C05.WF` is `ReadWF` without such brackets. `ParseIdemStatement` and
  `ProgramTotalStatement` hold as written: the English Prolog printer only needs that no *atom*
  prints as `NP\NP`, which holds of every `ReadWF` value.
-/
import Depccg.Props.ProgramDefs
import Depccg.Proofs.ProgramLemmas

namespace Depccg.ProgramProps
open Depccg Str Search GlueRun Lazy Print Cli LazyProps Config

/-- `"["` reads to the atom named `[`, which is not a well-formed value -/
theorem parse_wf_original_false : ¬ ParseWFStatement := by
  intro h
  have hwf : C05.WF (.atom (lit "[") (.un none)) := h (lit "[") _ (by decide)
  have := hwf.1.2 cLBr (by decide)
  revert this
  decide

/-- the reader returns exactly the `ReadWF` values; `C05.WF` is `ReadWF` without stray brackets -/
theorem parse_wf_partial : ParseWFPartialStatement :=
  ⟨fun _ _ h => pp_parse_readWF h, pp_parse_print, pp_wf_iff⟩

/-- reading, printing and reading again gives the same value -/
theorem parse_idem : ParseIdemStatement :=
  fun _ c h => pp_parse_print c (pp_parse_readWF h)

/-- the program prints a text whenever every string it reads as a category is one -/
theorem program_total : ProgramTotalStatement := pl_program_total

/-- the result is the one of `mainText` over the configured grammar -/
theorem program_eq : ProgramEqStatement := by
  intro en p o lines tagCats scores L h
  simp only [programText, h]

end Depccg.ProgramProps
