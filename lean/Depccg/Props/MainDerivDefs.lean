/-
  `--format deriv` at the level of the whole output: per tree the line
  `ID=<sentence>, log probability=<score>`, the ASCII-art derivation (several non-empty lines) and an
  empty line. A reader written in Lean (`Read.decBlockDoc`: header line, the lines up to the next
  empty line as one block) splits the text into records, and every block is read with the
  derivation reader `Read.decDeriv` (`deriv_decode`): sentence numbers, score texts, and words,
  shape, categories and rule symbols of every returned tree.
-/
import Depccg.Props.CliDefs
import Depccg.Props.FileDefs
import Depccg.Props.C07DerivDefs
import Depccg.Read.BlockDoc

namespace Depccg.CliProps
open Depccg Str Search GlueRun Lazy Print Cli LazyProps Read C07 TextProps

/-- a block: at least one line, every line non-empty and ended by its newline -/
def IsBlock (s : Str) : Prop :=
  ∃ ls : List Str, ls ≠ [] ∧ (∀ l ∈ ls, l ≠ [] ∧ 10 ∉ l) ∧ s = (ls.map (· ++ [10])).flatten

/-- for any formatter that prints blocks: the records of the output are (sentence number, score
    text, block), one per tree, in order -/
def BlockDocDecodeStatement : Prop :=
  ∀ (fmt : Tree → Except Err Str) (batch : List (List (Tree × Str))) (text : Str),
    (∀ ts ∈ batch, ∀ p ∈ ts, 10 ∉ p.2 ∧ ∀ s, fmt p.1 = .ok s → IsBlock s) →
    toStringLines fmt false batch = .ok text →
    ∃ recs, decBlockDoc text = some recs ∧
      FileProps.Forall2 (fun (p : Nat × (Tree × Str)) (r : Nat × Str × Str) =>
        r.1 = p.1 ∧ r.2.1 = p.2.2 ∧ fmt p.2.1 = .ok r.2.2) (numbered batch) recs

/-- a printed derivation is a block -/
def DerivIsBlockStatement : Prop :=
  ∀ (t : Tree) (s : Str),
    AllCats (fun c => Field c.str) t →
    AllToks (fun tok => ∃ w, Token.get? tok (lit "word") = some w ∧ Field w) t →
    SymsOK t → derivOf t = .ok s → IsBlock s

/-- the program's `deriv` output: one record per returned tree, in order, numbered by sentence, with
    the score text, and the block reads back to the view of the tree -/
def MainDerivReadsBackStatement : Prop :=
  ∀ (results : List SentResult) (text : Str),
    (∀ r ∈ results, ∀ ts ∈ scored r, AllCats (fun c => Field c.str) ts.1 ∧
      AllToks (fun tok => ∃ w, Token.get? tok (lit "word") = some w ∧ Field w) ts.1 ∧ SymsOK ts.1) →
    printText Fmt.deriv results = .ok text →
    ∃ recs, decBlockDoc text = some recs ∧
      FileProps.Forall2 (fun (p : Nat × (Tree × Str)) (r : Nat × Str × Str) =>
        r.1 = p.1 ∧ r.2.1 = p.2.2 ∧ decDeriv r.2.2 = some (viewDeriv p.2.1))
        (numbered (results.map scored)) recs

end Depccg.CliProps
