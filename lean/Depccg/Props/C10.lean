import Depccg.Props.SearchBasics
import Depccg.Props.SearchNBest
