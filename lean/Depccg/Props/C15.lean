/-
  C15  XML formats round-trip and give ccg2lambda a complete derivation.

  Seven statements (Props/C15Defs.lean); six are proved as stated.  `JiggWellFormedStatement` is
  FALSE as written: the Jigg encoder copies every entry of a token into the `<token>` element
  after its own `start`, `cat`, `id`, so a token carrying an `id` entry replaces the encoder's id
  (two such tokens give duplicate token ids, and the spans' `terminal` references dangle).  The
  counterexample is machine-checked below (`jigg_wellformed_original_false`); the corrected
  statement `JiggWellFormedStatement'` (extra hypothesis: the tokens of the first tree of every
  sentence have no `id` entry; conclusion unchanged) is proved as `jigg_wellformed_partial`.
-/
import Depccg.Props.C15Defs
import Depccg.Proofs.C15Lemmas

namespace Depccg.C15
open Depccg Str Xml TextProps

/-- reading back C&C XML that depccg wrote -/
theorem xml_roundtrip : XmlRoundtripStatement := xml_roundtrip_thm

/-- sentences and trees are numbered from 1 -/
theorem xml_numbering : XmlNumberingStatement := xml_numbering_thm

/-- Jigg XML written by depccg is self-contained (corrected statement, see the header) -/
theorem jigg_wellformed_partial : JiggWellFormedStatement' := jigg_wellformed_partial_thm

/-- reading Japanese Jigg XML back gives the categories, the shape and the words -/
theorem jigg_roundtrip_ja : JiggRoundtripJaStatement := jigg_roundtrip_ja_thm

/-- ccg2lambda's re-nesting of the flat spans is isomorphic to the derivation -/
theorem build_tree_iso : BuildTreeIsoStatement := build_tree_iso_thm

/-- normalised token names start with `_` and contain no logic punctuation -/
theorem normalize_clean : NormalizeCleanStatement := normalize_clean_thm

/-- `normalize_token` is idempotent -/
theorem normalize_idem : NormalizeIdemStatement := normalize_idem_thm

/-! ### the original Jigg statement is false -/

def cexN : Cat := .atom (lit "N") (.un none)
/-- a token that brings its own `id` -/
def cexTok : Token := [(lit "word", lit "a"), (lit "id", lit "x")]
def cexTree : Tree :=
  .bin cexN (lit "fa") (lit ">") true (.leaf cexN cexTok (lit "lex") (lit "<lex>"))
    (.leaf cexN cexTok (lit "lex") (lit "<lex>"))

/-- the two `<token>` elements both get `id="x"` -/
example : (jiggOf false [[cexTree]]).map (fun ss => ss.map tokenIds) = .ok [[lit "x", lit "x"]] := by decide

theorem jigg_wellformed_original_false : ¬ JiggWellFormedStatement := by
  intro h
  obtain ⟨ss, hss⟩ : ∃ ss, jiggOf false [[cexTree]] = .ok ss := ⟨_, rfl⟩
  have h1 := h false [[cexTree]] ss (by decide) hss
  have hids : ss.map tokenIds = [[lit "x", lit "x"]] := by
    have : (jiggOf false [[cexTree]]).map (fun ss => ss.map tokenIds) = .ok [[lit "x", lit "x"]] := by decide
    rw [hss] at this
    exact Except.ok.inj this
  match ss, h1, hids with
  | [s], h1, hids =>
    have hn := (h1.2.1 (s, [cexTree]) (by simp)).2.1
    simp only [List.map_cons, List.map_nil, List.cons.injEq, and_true] at hids
    simp only [hids] at hn
    revert hn
    decide

/-! ### non-vacuity: C&C XML -/

def exN : Cat := .atom (lit "N") (.un none)
def exNN : Cat := .fn exN cSlash exN
def exTokA : Token :=
  [(lit "word", lit "old"), (lit "pos", lit "JJ"), (lit "entity", lit "O"), (lit "lemma", lit "old"), (lit "chunk", lit "I-NP")]
def exTokB : Token :=
  [(lit "word", lit "dogs"), (lit "pos", lit "NNS"), (lit "entity", lit "O"), (lit "lemma", lit "dog"), (lit "chunk", lit "I-NP")]
/-- `old dogs`, with labels the reader will not see again on the binary node -/
def exTree : Tree :=
  .bin exN (lit "xx") (lit "?") false (.leaf exNN exTokA (lit "lex") (lit "<lex>")) (.leaf exN exTokB (lit "lex") (lit "<lex>"))
/-- what the reader makes of it: the grammar's label and head direction -/
def exImage : Tree :=
  .bin exN (lit "fa") (lit ">") true (.leaf exNN exTokA (lit "lex") (lit "<lex>")) (.leaf exN exTokB (lit "lex") (lit "<lex>"))
def exX : XTree := .rule2 [(lit "type", lit "xx"), (lit "cat", lit "N")]
  (.lf [(lit "start", lit "0"), (lit "span", lit "1"), (lit "cat", lit "N/N"), (lit "word", lit "old"), (lit "pos", lit "JJ"),
        (lit "entity", lit "O"), (lit "lemma", lit "old"), (lit "chunk", lit "I-NP")])
  (.lf [(lit "start", lit "1"), (lit "span", lit "1"), (lit "cat", lit "N"), (lit "word", lit "dogs"), (lit "pos", lit "NNS"),
        (lit "entity", lit "O"), (lit "lemma", lit "dog"), (lit "chunk", lit "I-NP")])

/-- `xml_of` evaluated on a sentence with two (equal) trees -/
example : (xmlOf [[exTree, exTree]]).map (fun c => (c.sentence, c.id, c.tree)) = [(1, 1, exX), (1, 2, exX)] := by
  decide

/-- and read back -/
example : xmlImage .en exTree = .ok exImage ∧ readXTree .en exX = .ok (exImage, exImage.tokens) := by decide

theorem xmlTokOK_of_dec (t : Token) (h1 : ∀ k ∈ fiveKeys, (Token.get? t k).isSome = true)
    (h2 : ∀ kv ∈ t, kv.1 ∉ reservedXml) (h3 : (t.map (·.1)).Nodup) : XmlTokOK t :=
  ⟨fun k hk => Option.isSome_iff_exists.1 (h1 k hk), h2, h3⟩

/-- the hypotheses of `xml_roundtrip` hold for the example, and the theorem gives the same answer -/
example : ∃ t', xmlImage .en exTree = .ok t' ∧ readXTree .en (xmlTree exTree 0).1 = .ok (t', t'.tokens) := by
  apply xml_roundtrip .en exTree 0
  · simp only [exTree, AllCats, exN, exNN, C05.WF, C05.WFFeat, C05.PlainTok]
    decide
  · simp [exTree, AllCats, exN, exNN, OneSystem, C14.AllUnary]
  · exact ⟨xmlTokOK_of_dec exTokA (by decide) (by decide) (by decide),
      xmlTokOK_of_dec exTokB (by decide) (by decide) (by decide)⟩

/-! ### non-vacuity: Jigg XML -/

/-- a second analysis of the same words, with a unary node -/
def exTree2 : Tree :=
  .bin exN (lit "fa") (lit ">") false (.leaf exNN exTokA (lit "lex") (lit "<lex>"))
    (.un exN (lit "lex") (lit "<un>") (.leaf exN exTokB (lit "lex") (lit "<lex>")))

/-- `to_jigg_xml` evaluated on one sentence with two trees: the `<token>` elements ... -/
example : (jiggOf false [[exTree2, exTree]]).map (fun ss => ss.map fun s => s.tokens) =
    .ok [[[(lit "start", lit "0"), (lit "cat", lit "N/N"), (lit "id", lit "s0_0"), (lit "pos", lit "JJ"), (lit "entity", lit "O"),
           (lit "chunk", lit "I-NP"), (lit "surf", lit "old"), (lit "base", lit "old")],
          [(lit "start", lit "1"), (lit "cat", lit "N"), (lit "id", lit "s0_1"), (lit "pos", lit "NNS"), (lit "entity", lit "O"),
           (lit "chunk", lit "I-NP"), (lit "surf", lit "dogs"), (lit "base", lit "dog")]]] := by
  decide

/-- ... the attributes of the two `<ccg>` elements ... -/
example : (jiggOf false [[exTree2, exTree]]).map (fun ss => ss.map fun s => s.ccgs.map (·.attrs)) =
    .ok [[[(lit "id", lit "s0_ccg0"), (lit "root", lit "s0_sp0")], [(lit "id", lit "s0_ccg1"), (lit "root", lit "s0_sp4")]]] := by
  decide

/-- ... and their spans: flat, in pre-order, the span ids running on across the trees -/
example : (jiggOf false [[exTree2, exTree]]).map (fun ss => ss.flatMap fun s => s.ccgs.map (·.spans)) =
    .ok [[[(lit "category", lit "N"), (lit "id", lit "s0_sp0"), (lit "child", lit "s0_sp1 s0_sp2"), (lit "rule", lit "fa"),
            (lit "begin", lit "0"), (lit "end", lit "2"), (lit "root", lit "true")],
           [(lit "category", lit "N/N"), (lit "id", lit "s0_sp1"), (lit "terminal", lit "s0_0"), (lit "begin", lit "0"), (lit "end", lit "1")],
           [(lit "category", lit "N"), (lit "id", lit "s0_sp2"), (lit "child", lit "s0_sp3"), (lit "rule", lit "lex"),
            (lit "begin", lit "1"), (lit "end", lit "2")],
           [(lit "category", lit "N"), (lit "id", lit "s0_sp3"), (lit "terminal", lit "s0_1"), (lit "begin", lit "1"), (lit "end", lit "2")]],
          [[(lit "category", lit "N"), (lit "id", lit "s0_sp4"), (lit "child", lit "s0_sp5 s0_sp6"), (lit "rule", lit "xx"),
            (lit "begin", lit "0"), (lit "end", lit "2"), (lit "root", lit "true")],
           [(lit "category", lit "N/N"), (lit "id", lit "s0_sp5"), (lit "terminal", lit "s0_0"), (lit "begin", lit "0"), (lit "end", lit "1")],
           [(lit "category", lit "N"), (lit "id", lit "s0_sp6"), (lit "terminal", lit "s0_1"), (lit "begin", lit "1"), (lit "end", lit "2")]]] := by
  decide

/-- the theorem applies to that batch: every `<ccg>` of its output is well-formed -/
example : ∃ ss, jiggOf false [[exTree2, exTree]] = .ok ss ∧ ss.length = 1 ∧
    ∀ p ∈ ss.zip [[exTree2, exTree]], p.1.ccgs.length = 2 ∧
      ∀ q ∈ p.1.ccgs.zip p.2, CcgWellFormed (tokenIds p.1) 2 q.1 := by
  refine ⟨_, rfl, ?_⟩
  have hw := jigg_wellformed_partial false [[exTree2, exTree]] _ (by decide)
    (by
      intro trees ht t hh
      simp only [List.mem_singleton] at ht
      subst ht
      simp only [List.head?_cons, Option.mem_def, Option.some.injEq] at hh
      subst hh
      show NoIdKey exTokA ∧ NoIdKey exTokB
      exact ⟨by unfold NoIdKey; decide, by unfold NoIdKey; decide⟩) rfl
  refine ⟨hw.1, fun p hp => ?_⟩
  have hp2 : p.2 = [exTree2, exTree] := by
    have := (List.of_mem_zip (a := p.1) (b := p.2) hp).2
    simpa using this
  refine ⟨by rw [(hw.2.1 p hp).1, hp2]; rfl, fun q hq => ?_⟩
  have := (hw.2.1 p hp).2.2.2.1 q hq
  have hq2 : q.2.numLeaves = 2 := by
    have := (List.of_mem_zip (a := q.1) (b := q.2) hq).2
    rw [hp2] at this
    simp only [List.mem_cons, List.not_mem_nil, or_false] at this
    rcases this with h | h <;> rw [h] <;> rfl
  rwa [hq2] at this

/-! ### non-vacuity: token names -/

example : normalizeToken (lit "Ph.D.") = lit "_Ph_DOTD_DOT" := by decide
example : normalizeToken (lit "-") = lit "_HYPHEN" := by decide
example : normalizeToken (lit "a-b") = lit "_a_dash_b" := by decide
example : normalizeToken (lit "&") = lit "_AMPERSAND" := by decide
example : normalizeToken (lit "_-") = lit "__dash_" := by decide
example : normalizeToken (normalizeToken (lit "Ph.D.")) = normalizeToken (lit "Ph.D.") := normalize_idem _

end Depccg.C15
