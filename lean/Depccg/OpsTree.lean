/-
  Driver side of the tree / printer / reader correspondence.
-/
import Depccg.Wire
import Depccg.Print.Text
import Depccg.Read.Text
import Depccg.Read.File

namespace Depccg
namespace OpsTree
open Wire

def pTok : P Token := fun ts => do
  let (n, ts) ← pNat ts
  let rec go : Nat → List String → Token → Option (Token × List String)
    | 0, ts, acc => some (acc.reverse, ts)
    | k + 1, ts, acc => do
      let (a, ts) ← pStr ts
      let (b, ts) ← pStr ts
      go k ts ((a, b) :: acc)
  go n ts []

partial def pTree : P Tree
  | "L" :: ts => do
    let (c, ts) ← pCat ts
    let (t, ts) ← pTok ts
    let (s, ts) ← pStr ts
    let (y, ts) ← pStr ts
    pure (.leaf c t s y, ts)
  | "U" :: ts => do
    let (c, ts) ← pCat ts
    let (s, ts) ← pStr ts
    let (y, ts) ← pStr ts
    let (ch, ts) ← pTree ts
    pure (.un c s y ch, ts)
  | "B" :: ts => do
    let (c, ts) ← pCat ts
    let (s, ts) ← pStr ts
    let (y, ts) ← pStr ts
    let (h, ts) ← pNat ts
    let (l, ts) ← pTree ts
    let (r, ts) ← pTree ts
    pure (.bin c s y (h != 0) l r, ts)
  | _ => none

def encTok (t : Token) : String :=
  toString t.length ++ String.join (t.map fun (k, v) => " " ++ encStr k ++ " " ++ encStr v)

def encTree : Tree → String
  | .leaf c t s y => "L " ++ encCat c ++ " " ++ encTok t ++ " " ++ encStr s ++ " " ++ encStr y
  | .un c s y ch => "U " ++ encCat c ++ " " ++ encStr s ++ " " ++ encStr y ++ " " ++ encTree ch
  | .bin c s y h l r =>
    "B " ++ encCat c ++ " " ++ encStr s ++ " " ++ encStr y ++ " " ++ bool01 h ++ " " ++ encTree l ++ " " ++ encTree r

def encRead (r : Except Err (Tree × List Token)) : String :=
  match r with
  | .error e => "err " ++ e.name
  | .ok (t, toks) => "ok " ++ encTree t ++ " | " ++ toString toks.length ++ String.join (toks.map fun t => " " ++ encTok t)

def pLang : P Lang
  | "en" :: ts => some (.en, ts)
  | "ja" :: ts => some (.ja, ts)
  | _ => none

def printOp (f : Tree → Except Err Str) (ts : List String) : String :=
  match pTree ts with
  | some (t, []) => encExcept encStr (f t)
  | _ => "bad-op"

/-- the results of a file-level reader: `name | tree | tokens` per result -/
def encFile (r : Except Err (List Read.ReaderResult)) : String :=
  match r with
  | .error e => "err " ++ e.name
  | .ok rs => "ok " ++ toString rs.length ++ String.join (rs.map fun (name, toks, t) =>
      " || " ++ encStr name ++ " " ++ encTree t ++ " | " ++ toString toks.length ++ String.join (toks.map fun t => " " ++ encTok t))

def dispatch (op : String) (ts : List String) : Option String :=
  match op with
  | "read_auto_file" => some (match pLang ts with
      | some (lang, ts) => (match pStr ts with
        | some (s, []) => encFile (Read.readAutoFile lang s)
        | _ => "bad-op")
      | none => "bad-op")
  | "read_ptb_file" => some (match pLang ts with
      | some (lang, ts) => (match pStr ts with
        | some (s, []) => encFile (Read.readPtbFile lang s)
        | _ => "bad-op")
      | none => "bad-op")
  | "read_ja_file" => some (match pStr ts with
      | some (s, []) => encFile (Read.readJaFile s)
      | _ => "bad-op")
  | "auto" => some (printOp Print.autoOf ts)
  | "autoext" => some (printOp Print.autoExtOf ts)
  | "conll" => some (printOp Print.conllOf ts)
  | "ptb" => some (printOp Print.ptbOf ts)
  | "ja" => some (printOp Print.jaOf ts)
  | "read_auto" => some (match pLang ts with
      | some (lang, ts) => (match pStr ts with
        | some (s, []) => encRead (Read.readAutoLine lang s)
        | _ => "bad-op")
      | none => "bad-op")
  | "read_ptb" => some (match pLang ts with
      | some (lang, ts) => (match pStr ts with
        | some (s, []) => encRead (Read.parsePtb lang s)
        | _ => "bad-op")
      | none => "bad-op")
  | "read_ja" => some (match pStr ts with
      | some (s, []) => encRead (Read.readJaLine s)
      | _ => "bad-op")
  | _ => none

end OpsTree
end Depccg
