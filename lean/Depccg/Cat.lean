/-
  Model of depccg/cat.py : Feature / UnaryFeature / TernaryFeature / Atom / Functor,
  the printer (`__str__`), the shift-reduce text reader (`Category.parse`), the hand-written
  `__eq__`s, the key hashed by the dataclass-generated `__hash__`, feature-blind `^`,
  and `clear_features`.
-/
import Depccg.Str

namespace Depccg
open Str

/-- The exceptions the Python / C++ code can raise, as a small enum. `unsupported` marks inputs
    on which the real code builds ill-typed objects (e.g. a `Functor` whose slash is a
    category): the model does not follow those and the harness does not compare them. -/
inductive Err where
  | keyError | assertion | indexError | typeError | attributeError | runtime | valueError
  | unsupported
  deriving DecidableEq, Repr, Inhabited

def Err.name : Err → String
  | .keyError => "KeyError" | .assertion => "AssertionError" | .indexError => "IndexError"
  | .typeError => "TypeError" | .attributeError => "AttributeError" | .runtime => "RuntimeError"
  | .valueError => "ValueError" | .unsupported => "Unsupported"

deriving instance DecidableEq for Except

inductive Feat where
  | un (v : Option Str)
  | tri (k1 v1 k2 v2 k3 v3 : Str)
  deriving DecidableEq, Repr, Inhabited

inductive Cat where
  | atom (base : Str) (f : Feat)
  | fn (l : Cat) (slash : Nat) (r : Cat)
  deriving DecidableEq, Repr, Inhabited

namespace Feat

/-- `str(feature)` -/
def str : Feat → Str
  | un none => []
  | un (some v) => v
  | tri k1 v1 k2 v2 k3 v3 =>
    k1 ++ cEq :: v1 ++ cComma :: (k2 ++ cEq :: v2 ++ cComma :: (k3 ++ cEq :: v3))

/-- `Feature.parse(text)` -/
def parse (text : Str) : Except Err Feat :=
  if hasChar cEq text && hasChar cComma text then
    match splitOn cComma text with
    | [a, b, c] =>
      match splitOn cEq a, splitOn cEq b, splitOn cEq c with
      | [k1, v1], [k2, v2], [k3, v3] => .ok (tri k1 v1 k2 v2 k3 v3)
      | _, _, _ => .error .unsupported   -- tuples of other arity: object exists but cannot be printed
    | _ => .error .typeError             -- TernaryFeature(*parts) with a wrong number of parts
  else .ok (un (some text))

/-- hand-written `__eq__` between two feature objects -/
def pyEq : Feat → Feat → Bool
  | un a, un b => a == b
  | tri a1 b1 a2 b2 a3 b3, tri c1 d1 c2 d2 c3 d3 =>
    (a1 == c1 && b1 == d1) && (a2 == c2 && b2 == d2) && (a3 == c3 && b3 == d3)
  | _, _ => false

/-- `feature == "text"` : `self == Feature.parse(text)` -/
def pyEqStr (f : Feat) (s : Str) : Except Err Bool :=
  match parse s with
  | .ok g => .ok (pyEq f g)
  | .error e => .error e

def isVariable : Feat → Bool
  | un v => v == some (lit "X")
  | tri _ v1 _ v2 _ v3 => startsWith v1 [88] || startsWith v2 [88] || startsWith v3 [88]

def isIgnorable : Feat → Bool
  | un v => v == none || v == some (lit "nb")
  | tri .. => false   -- attribute does not exist on TernaryFeature; never called there

/-- `self.unifies(other)` -/
def unifies : Feat → Feat → Except Err Bool
  | un v, o => .ok (isVariable (un v) || isIgnorable (un v) || pyEq (un v) o)
  | tri k1 v1 k2 v2 k3 v3, o =>
    if pyEq (tri k1 v1 k2 v2 k3 v3) o then .ok true else
    match o with
    | un _ => .error .attributeError        -- other.keys() on a UnaryFeature
    | tri c1 d1 c2 d2 c3 d3 =>
      if !(k1 == c1 && k2 == c2 && k3 == c3) then .ok false
      else .ok ((v1 == d1 || startsWith v1 [88]) && (v2 == d2 || startsWith v2 [88])
                && (v3 == d3 || startsWith v3 [88]))

/-- what the generated `__hash__` hashes -/
inductive HashKey where
  | unK (v : Option Str)
  | triK (kv1 kv2 kv3 : Str × Str)
  deriving DecidableEq

def hashKey : Feat → HashKey
  | un v => .unK v
  | tri k1 v1 k2 v2 k3 v3 => .triK (k1, v1) (k2, v2) (k3, v3)

end Feat

namespace Cat

def isFunctor : Cat → Bool | fn .. => true | _ => false
def isAtomic : Cat → Bool | atom .. => true | _ => false

/-- `str(category)` -/
def str : Cat → Str
  | atom b f =>
    let fs := f.str
    if fs.length == 0 then b else b ++ cLBr :: fs ++ [cRBr]
  | fn l s r =>
    let wrap (c : Cat) (t : Str) : Str := if c.isFunctor then cLPar :: t ++ [cRPar] else t
    wrap l l.str ++ s :: wrap r r.str

/-- hand-written `__eq__` between two category objects -/
def pyEq : Cat → Cat → Bool
  | atom b f, atom b' f' => b == b' && Feat.pyEq f f'
  | fn l s r, fn l' s' r' => pyEq l l' && s == s' && pyEq r r'
  | _, _ => false

/-- `category == "text"` : `str(self) == other` -/
def pyEqStr (c : Cat) (s : Str) : Bool := c.str == s

/-- the tuple hashed by the dataclass-generated `__hash__` -/
inductive HashKey where
  | atomK (base : Str) (f : Feat.HashKey)
  | fnK (l : HashKey) (slash : Nat) (r : HashKey)
  deriving DecidableEq

def hashKey : Cat → HashKey
  | atom b f => .atomK b f.hashKey
  | fn l s r => .fnK l.hashKey s r.hashKey

/-- feature-blind comparison `a ^ b` -/
def xorEq : Cat → Cat → Bool
  | atom b _, atom b' _ => b == b'
  | fn l s r, fn l' s' r' => xorEq l l' && s == s' && xorEq r r'
  | _, _ => false

/-- `feature in args` for string arguments: first `==` hit wins, a malformed argument raises
    when (and only when) it is reached. -/
def featIn (f : Feat) : List Str → Except Err Bool
  | [] => .ok false
  | a :: as =>
    match Feat.pyEqStr f a with
    | .ok true => .ok true
    | .ok false => featIn f as
    | .error e => .error e

/-- `category.clear_features(*args)` -/
def clear (args : List Str) : Cat → Except Err Cat
  | atom b f =>
    match featIn f args with
    | .ok true => .ok (atom b (.un none))
    | .ok false => .ok (atom b f)
    | .error e => .error e
  | fn l s r =>
    match clear args l with
    | .error e => .error e
    | .ok l' =>
      match clear args r with
      | .error e => .error e
      | .ok r' => .ok (fn l' s r')

def nargs : Cat → Nat
  | atom .. => 0
  | fn l _ _ => 1 + l.nargs

/-- `category.arg(index)` -/
def arg : Cat → Nat → Option Cat
  | atom b f, i => if i = 0 then some (atom b f) else none
  | fn l s r, i => if (fn l s r).nargs = i then some (fn l s r) else l.arg i

/-! ### The text reader -/

def punctuations : List Str :=
  [lit ",", lit ".", lit ";", lit ":", lit "LRB", lit "RRB", lit "conj", lit "*START*", lit "*END*"]

def isSpecial (c : Nat) : Bool :=
  c == cLBr || c == cRBr || c == cLPar || c == cRPar || c == cSlash || c == cBSlash
  || c == cBar || c == cLt || c == cGt

/-- `cat_split.sub(r' \1 ', text).split(' ')` without the empty strings. -/
def tokenizeAux : Str → Str → List Str
  | acc, [] => if acc.isEmpty then [] else [acc.reverse]
  | acc, c :: cs =>
    if c == cSpace then
      (if acc.isEmpty then tokenizeAux [] cs else acc.reverse :: tokenizeAux [] cs)
    else if isSpecial c then
      (if acc.isEmpty then [c] :: tokenizeAux [] cs else acc.reverse :: [c] :: tokenizeAux [] cs)
    else tokenizeAux (c :: acc) cs

def tokenize (s : Str) : List Str := tokenizeAux [] s

/-- what the reader keeps on its stack: a category or one of the strings `( < / \ |` -/
inductive Item where
  | cat (c : Cat)
  | sym (s : Nat)
  deriving DecidableEq, Repr

def isOpenTok (t : Str) : Bool := t == [cLPar] || t == [cLt]
def isCloseTok (t : Str) : Bool := t == [cRPar] || t == [cGt]
def isSlashTok (t : Str) : Bool := t == [cSlash] || t == [cBSlash] || t == [cBar]
def isSlashCode (c : Nat) : Bool := c == cSlash || c == cBSlash || c == cBar

/-- `Functor(x, f, y)` when the three popped things are a category, a slash string, a
    category; anything else builds an ill-typed object. -/
def mkFunctor (x f y : Item) : Except Err Cat :=
  match x, f, y with
  | .cat a, .sym s, .cat b => if isSlashCode s then .ok (fn a s b) else .error .unsupported
  | _, _, _ => .error .unsupported

/-- the `elif item in ')>'` branch; the stack's head is the Python list's last element -/
def closeStep (item : Str) (stack : List Item) : Except Err (List Item) :=
  match stack with
  | [] => .error .indexError                      -- y = stack.pop()
  | y :: st =>
    match st with
    | [] => .error .assertion                     -- assert len(stack) > 0
    | top :: st1 =>
      if (top == .sym cLPar && item == [cRPar]) || (top == .sym cLt && item == [cGt]) then
        .ok (y :: st1)
      else
        -- f = stack.pop(); x = stack.pop(); assert stack.pop() in "(<"
        match st1 with
        | [] => .error .indexError
        | x :: st2 =>
          match st2 with
          | [] => .error .indexError
          | .cat _ :: _ => .error .typeError       -- `category in "(<"`
          | .sym o :: st3 =>
            if o == cLPar || o == cLt then
              match mkFunctor x top y with
              | .ok c => .ok (.cat c :: st3)
              | .error e => .error e
            else .error .assertion

/-- the atom branch of the loop: the category pushed and how many further tokens it consumed
    (`len(buffer) >= 3 and buffer[-1] == '['`). -/
def atomStep (item : Str) (buf : List Str) : Except Err (Cat × List Str) :=
  match buf with
  | b1 :: b2 :: b3 :: rest =>
    if b1 == [cLBr] then
      match Feat.parse b2 with
      | .error e => .error e
      | .ok f =>
        if b3 == [cRBr] then .ok (atom item f, rest) else .error .assertion
    else .ok (atom item (.un none), buf)
  | _ => .ok (atom item (.un none), buf)

/-- the `while len(buffer)` loop. Fuel: every iteration pops at least one token, so
    `tokens.length` iterations suffice (`parse` supplies exactly that). -/
def readLoop : Nat → List Item → List Str → Except Err (List Item)
  | _, st, [] => .ok st
  | 0, _, _ :: _ => .error .unsupported            -- unreachable with fuel = token count
  | fuel + 1, st, item :: buf =>
    if punctuations.elem item then readLoop fuel (.cat (atom item (.un none)) :: st) buf
    else if isOpenTok item then readLoop fuel (.sym (item.headD 0) :: st) buf
    else if isCloseTok item then
      match closeStep item st with
      | .ok st' => readLoop fuel st' buf
      | .error e => .error e
    else if isSlashTok item then readLoop fuel (.sym (item.headD 0) :: st) buf
    else
      match atomStep item buf with
      | .ok (c, rest) => readLoop fuel (.cat c :: st) rest
      | .error e => .error e

/-- after the loop: one thing on the stack, or exactly `x f y` -/
def finish : List Item → Except Err Cat
  | [.cat c] => .ok c
  | [.sym _] => .error .unsupported                -- the real code returns a bare string
  | [y, f, x] => mkFunctor x f y
  | _ => .error .runtime

/-- `Category.parse(text)` -/
def parse (text : Str) : Except Err Cat :=
  match readLoop (tokenize text).length [] (tokenize text) with
  | .ok st => finish st
  | .error e => .error e

end Cat
end Depccg
