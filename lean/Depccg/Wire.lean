/-
  Wire format of the driver's line protocol (DESIGN.md Appendix B).  Not part of the model:
  encoders/decoders between protocol tokens and model values.
-/
import Depccg.Cat

namespace Depccg
namespace Wire

def hexDigit (n : Nat) : Char :=
  if n < 10 then Char.ofNat (48 + n) else Char.ofNat (87 + n)

partial def hexOfNat (n : Nat) : String :=
  if n < 16 then String.singleton (hexDigit n) else hexOfNat (n / 16) ++ String.singleton (hexDigit (n % 16))

def hexVal (c : Char) : Option Nat :=
  if '0' ≤ c ∧ c ≤ '9' then some (c.toNat - 48)
  else if 'a' ≤ c ∧ c ≤ 'f' then some (c.toNat - 87) else none

def natOfHex (s : String) : Option Nat :=
  if s.isEmpty then none else
  s.toList.foldl (fun acc c => match acc, hexVal c with
    | some a, some v => some (a * 16 + v) | _, _ => none) (some 0)

/-- Str token: `s` followed by `_`-separated hex code points; the empty string is `s`. -/
def encStr (s : Str) : String :=
  "s" ++ "_".intercalate (s.map hexOfNat)

def decStr (t : String) : Option Str :=
  match t.toList with
  | 's' :: rest =>
    if rest.isEmpty then some [] else
    ((String.ofList rest).splitOn "_").foldr (fun h acc => match natOfHex h, acc with
      | some v, some l => some (v :: l) | _, _ => none) (some [])
  | _ => none

def encFeat : Feat → List String
  | .un none => ["N"]
  | .un (some v) => ["U", encStr v]
  | .tri k1 v1 k2 v2 k3 v3 => ["T", encStr k1, encStr v1, encStr k2, encStr v2, encStr k3, encStr v3]

def encCatL : Cat → List String
  | .atom b f => "A" :: encStr b :: encFeat f
  | .fn l s r => "F" :: (encCatL l ++ toString s :: encCatL r)

def encCat (c : Cat) : String := " ".intercalate (encCatL c)

abbrev P (α : Type) := List String → Option (α × List String)

def pStr : P Str
  | t :: ts => (decStr t).map (·, ts)
  | [] => none

def pNat : P Nat
  | t :: ts => t.toNat?.map (·, ts)
  | [] => none

def pInt : P Int
  | t :: ts => t.toInt?.map (·, ts)
  | [] => none

def pFeat : P Feat
  | "N" :: ts => some (.un none, ts)
  | "U" :: ts => do let (v, ts) ← pStr ts; pure (.un (some v), ts)
  | "T" :: ts => do
    let (k1, ts) ← pStr ts; let (v1, ts) ← pStr ts
    let (k2, ts) ← pStr ts; let (v2, ts) ← pStr ts
    let (k3, ts) ← pStr ts; let (v3, ts) ← pStr ts
    pure (.tri k1 v1 k2 v2 k3 v3, ts)
  | _ => none

partial def pCat : P Cat
  | "A" :: ts => do
    let (b, ts) ← pStr ts
    let (f, ts) ← pFeat ts
    pure (.atom b f, ts)
  | "F" :: ts => do
    let (l, ts) ← pCat ts
    let (s, ts) ← pNat ts
    let (r, ts) ← pCat ts
    pure (.fn l s r, ts)
  | _ => none

def pList {α} (p : P α) : P (List α)
  | t :: ts => do
    let n ← t.toNat?
    let rec go : Nat → List String → List α → Option (List α × List String)
      | 0, ts, acc => some (acc.reverse, ts)
      | k + 1, ts, acc => do let (a, ts) ← p ts; go k ts (a :: acc)
    go n ts []
  | [] => none

def bool01 (b : Bool) : String := if b then "1" else "0"

def encExcept {α} (enc : α → String) : Except Err α → String
  | .ok a => "ok " ++ enc a
  | .error e => "err " ++ e.name

end Wire
end Depccg
