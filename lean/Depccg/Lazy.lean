/-
  The whole of `depccg._parsing.run` in one model: `parse_sentence` (depccg/parsing.h) as it really
  runs — the rule cache is empty at the start of a call and is filled *during* the search, through
  the callbacks of parsing.pyx (`GlueRun`), which number new categories on the fly; `retrieve_tree`
  turns the goal items into `Tree`s right after the sentence's search; the category table and the
  cache are shared by the sentences of one call.

  `Search.run` consults a total id-level grammar; here the grammar is the pair of category-level
  rule functions the caller passed (`CatGrammar`) and the id-level view exists only as far as the
  search has asked. `Props/Lazy.lean` proves that the two coincide (`lazy_eq_final`) and that the
  trees do not depend on the history of the call.
-/
import Depccg.GlueRun
import Depccg.Glue

namespace Depccg
namespace Lazy
open Search GlueTree GlueRun

/-- the id-level grammar as far as the cache knows it -/
def view (gst : GSt) : Grammar := grammarOf (tablesOf gst)

/-- `for (auto &unary : *apply_unary_rules(item->cat))`: the row is requested (computed on the
    first request), then read -/
def unaryL (G : CatGrammar) (cfg : Cfg) (gst : GSt) (it : Item) : List Item × GSt :=
  let gst' := unCall G gst it.cat
  (unaryItems (view gst') cfg it, gst')

/-- the loop over the neighbours `os` of `it`: one `apply_binary_rules` request per neighbour, in
    order; `left = true` when `it` is the left child -/
def binL (G : CatGrammar) (s : Sent) (it : Item) (left : Bool) : GSt → List Item → List Item × GSt
  | gst, [] => ([], gst)
  | gst, o :: os =>
    let l := if left then it else o
    let r := if left then o else it
    let gst1 := binCall G gst l.cat r.cat
    let here := binaryItems (view gst1) s l r
    let (rest, gst2) := binL G s it left gst1 os
    (here ++ rest, gst2)

/-- what is pushed when `it` has just entered the chart, and the table / cache afterwards -/
def expandL (G : CatGrammar) (s : Sent) (cfg : Cfg) (chart : List Item) (it : Item) (gst : GSt) :
    List Item × GSt :=
  let fin := if it.len = s.n ∧ s.roots.elem it.cat then [finItem s it] else []
  let (un, gst1) := if s.n = 1 ∨ it.len ≠ s.n then unaryL G cfg gst it else ([], gst)
  let (rs, gst2) := binL G s it true gst1 (neighbours chart fun o => o.start == it.stop)
  let (ls, gst3) := binL G s it false gst2 (neighbours chart fun o => o.stop == it.start)
  (fin ++ un ++ rs ++ ls, gst3)

structure LSt where
  st : St
  gst : GSt

/-- one iteration of the loop of `parse_sentence` -/
def stepL (pick : Pick) (G : CatGrammar) (s : Sent) (cfg : Cfg) (ls : LSt) : Option LSt :=
  let st := ls.st
  if cfg.nbest ≤ st.goal.length then none else
  match pick.pop st.agenda with
  | none => none
  | some (it, rest) =>
    let st := { st with agenda := rest, popped := it :: st.popped, steps := st.steps + 1,
                          tie := st.tie || rest.any fun o => o.prio == it.prio }
    if it.fin then
      if cfg.nbest ≤ 1 ∧ inGoal st.goal it then some { ls with st := st }
      else some { ls with st := { st with goal := it :: st.goal } }
    else if cfg.nbest ≤ 1 ∧ inChart st.chart it then some { ls with st := st }
    else
      let (new, gst') := expandL G s cfg st.chart it ls.gst
      some { st := { st with chart := it :: st.chart, agenda := pick.push new st.agenda }, gst := gst' }

def loopL (pick : Pick) (G : CatGrammar) (s : Sent) (cfg : Cfg) : Nat → LSt → LSt
  | 0, ls => ls
  | fuel + 1, ls =>
    match stepL pick G s cfg ls with
    | none => ls
    | some ls' => loopL pick G s cfg fuel ls'

/-- one `parse_sentence` call from the table / cache `gst` -/
def runLWith (pick : Pick) (G : CatGrammar) (gst : GSt) (s : Sent) (cfg : Cfg) : Outcome × GSt :=
  let ls := loopL pick G s cfg cfg.maxStep { st := init pick s cfg, gst := gst }
  ({ results := sortDesc ls.st.goal, popped := ls.st.popped.reverse, steps := ls.st.steps, tie := ls.st.tie },
   ls.gst)

def runL (G : CatGrammar) (gst : GSt) (s : Sent) (cfg : Cfg) : Outcome × GSt :=
  runLWith pickHeap G gst s cfg

/-! ### the finaliser and the batch loop of `run` -/

/-- the finaliser loop: every goal item, best first, becomes a scored tree (the score is
    `item.score()` of the goal item) -/
def treesOf (gst : GSt) (tokens : List Token) : List Item → Except Err (List (Tree × Int))
  | [] => .ok []
  | r :: rs =>
    match retrieve (tablesOf gst) tokens r.d with
    | .error e => .error e
    | .ok t =>
      match treesOf gst tokens rs with
      | .error e => .error e
      | .ok ts => .ok ((t, r.prio) :: ts)

/-- what `run` appends to `all_results` for one sentence -/
inductive SentResult where
  | failed                                   -- the placeholder: too long / no parse / step budget
  | parsed (trees : List (Tree × Int))
  deriving DecidableEq, Repr

/-- the per-sentence data of a call: tokens, scores (ids of `roots` are filled in by `runBatch`) -/
structure SentIn where
  tokens : List Token
  tags : List (List Int)
  deps : List (List Int)
  passes : List (List Bool)

def sentOf (rootIds : List Nat) (x : SentIn) : Sent :=
  { n := x.tokens.length, tags := x.tags, deps := x.deps, roots := rootIds, passes := x.passes }

/-- one pass of the `for tokens, (tag_scores, dep_scores) in …` loop -/
def sentenceL (pick : Pick) (G : CatGrammar) (rootIds : List Nat) (cfg : Cfg) (maxLength : Option Nat)
    (gst : GSt) (x : SentIn) : Except Err SentResult × Outcome × GSt :=
  let none' : Outcome := { results := [], popped := [], steps := 0, tie := false }
  match maxLength with
  | some m => if m < x.tokens.length then (.ok .failed, none', gst) else go
  | none => go
where
  go : Except Err SentResult × Outcome × GSt :=
    let (out, gst') := runLWith pick G gst (sentOf rootIds x) cfg
    if out.results.isEmpty then (.ok .failed, out, gst')
    else match treesOf gst' x.tokens out.results with
      | .error e => (.error e, out, gst')
      | .ok ts => (.ok (.parsed ts), out, gst')

/-- the loop over the sentences of a call, threading table and cache -/
def sentencesL (pick : Pick) (G : CatGrammar) (rootIds : List Nat) (cfg : Cfg) (maxLength : Option Nat) :
    GSt → List SentIn → List (Except Err SentResult × Outcome) × GSt
  | gst, [] => ([], gst)
  | gst, x :: xs =>
    let (r, out, gst1) := sentenceL pick G rootIds cfg maxLength gst x
    let (rest, gst2) := sentencesL pick G rootIds cfg maxLength gst1 xs
    ((r, out) :: rest, gst2)

/-- `depccg._parsing.run(doc, scores, categories, apply_binary_rules, apply_unary_rules,
    possible_root_cats, **kwargs)`; a category list with duplicates is rejected first -/
def runBatchWith (pick : Pick) (G : CatGrammar) (categories roots : List Cat) (cfg : Cfg)
    (maxLength : Option Nat) (doc : List SentIn) :
    Except Err (List (Except Err SentResult × Outcome) × GSt) :=
  if categories.Nodup then
    .ok (sentencesL pick G (addRoots categories roots).2 cfg maxLength (GlueRun.init categories roots) doc)
  else .error .runtime

def runBatch (G : CatGrammar) (categories roots : List Cat) (cfg : Cfg) (maxLength : Option Nat)
    (doc : List SentIn) : Except Err (List (Except Err SentResult × Outcome) × GSt) :=
  runBatchWith pickHeap G categories roots cfg maxLength doc

/-! ### `depccg.parsing.run` (parsing.py) over `_parsing.run`: chunks and worker processes -/

/-- the results of the chunks, in order; the first failing chunk's exception propagates
    (`task.get()` re-raises) -/
def collect {α : Type} : List (Except Err (List α)) → Except Err (List α)
  | [] => .ok []
  | .error e :: _ => .error e
  | .ok r :: rest =>
    match collect rest with
    | .error e => .error e
    | .ok rs => .ok (r ++ rs)

/-- one `_parsing.run` call as `parsing.run` sees it: the per-sentence results -/
def callResults (G : CatGrammar) (categories roots : List Cat) (cfg : Cfg) (maxLength : Option Nat)
    (doc : List SentIn) : Except Err (List (Except Err SentResult)) :=
  match runBatch G categories roots cfg maxLength doc with
  | .error e => .error e
  | .ok (outs, _) => .ok (outs.map (·.1))

/-- `depccg.parsing.run` after `_type_check`: one call when the document has at most
    `max_chunk_size` sentences, otherwise `_chunks(…, processes)` and one call per chunk (each in its
    own worker process, each with a fresh category table and rule cache), results concatenated in
    chunk order -/
def parsingRun (G : CatGrammar) (categories roots : List Cat) (cfg : Cfg) (maxLength : Option Nat)
    (maxChunk procs : Nat) (doc : List SentIn) : Except Err (List (Except Err SentResult)) :=
  if doc.length ≤ maxChunk then callResults G categories roots cfg maxLength doc
  else match Glue.chunks doc procs with
    | .error e => .error e
    | .ok cs => collect (cs.map (callResults G categories roots cfg maxLength))

end Lazy
end Depccg
