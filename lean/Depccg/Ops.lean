/-
  Dispatch of protocol operations to model functions (driver side of the correspondence).
-/
import Depccg.Wire

namespace Depccg
namespace Ops
open Wire

def bad : String := "bad-op"

def run2 {α β} (pa : P α) (pb : P β) (ts : List String) (k : α → β → String) : String :=
  match pa ts with
  | some (a, ts) => match pb ts with
    | some (b, []) => k a b
    | _ => bad
  | none => bad

def run1 {α} (pa : P α) (ts : List String) (k : α → String) : String :=
  match pa ts with
  | some (a, []) => k a
  | _ => bad

def catOps (op : String) (ts : List String) : Option String :=
  match op with
  | "eq" => some <| run2 pCat pCat ts fun a b => bool01 (Cat.pyEq a b)
  | "hash" => some <| run2 pCat pCat ts fun a b => bool01 (decide (Cat.hashKey a = Cat.hashKey b))
  | "eqstr" => some <| run2 pCat pStr ts fun a s => bool01 (Cat.pyEqStr a s)
  | "xor" => some <| run2 pCat pCat ts fun a b => bool01 (Cat.xorEq a b)
  | "clear" => some <| run2 (pList pStr) pCat ts fun args c => encExcept encCat (Cat.clear args c)
  | "parse" => some <| run1 pStr ts fun s => encExcept encCat (Cat.parse s)
  | "print" => some <| run1 pCat ts fun c => encStr c.str
  | "tokenize" => some <| run1 pStr ts fun s => " ".intercalate ((Cat.tokenize s).map encStr)
  | "feq" => some <| run2 pFeat pFeat ts fun a b => bool01 (Feat.pyEq a b)
  | "feqstr" => some <| run2 pFeat pStr ts fun a s => encExcept bool01 (Feat.pyEqStr a s)
  | "fparse" => some <| run1 pStr ts fun s => encExcept (fun f => " ".intercalate (encFeat f)) (Feat.parse s)
  | "funifies" => some <| run2 pFeat pFeat ts fun a b => encExcept bool01 (Feat.unifies a b)
  | "nargs" => some <| run1 pCat ts fun c => toString c.nargs
  | _ => none

def dispatch (line : String) : String :=
  match line.splitOn " " with
  | op :: ts =>
    match catOps op ts with
    | some r => r
    | none => bad
  | [] => bad

end Ops
end Depccg
