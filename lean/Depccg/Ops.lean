/-
  Dispatch of protocol operations to model functions (driver side of the correspondence).
-/
import Depccg.OpsConfig
import Depccg.Wire
import Depccg.Ja
import Depccg.OpsSearch
import Depccg.OpsGlue
import Depccg.OpsTree
import Depccg.OpsXml
import Depccg.OpsMore
import Depccg.OpsLazy

namespace Depccg
namespace Ops
open Wire

def bad : String := "bad-op"

def run2 {α β} (pa : P α) (pb : P β) (ts : List String) (k : α → β → String) : String :=
  match pa ts with
  | some (a, ts) => match pb ts with
    | some (b, []) => k a b
    | _ => bad
  | none => bad

def run1 {α} (pa : P α) (ts : List String) (k : α → String) : String :=
  match pa ts with
  | some (a, []) => k a
  | _ => bad

def catOps (op : String) (ts : List String) : Option String :=
  match op with
  | "eq" => some <| run2 pCat pCat ts fun a b => bool01 (Cat.pyEq a b)
  | "hash" => some <| run2 pCat pCat ts fun a b => bool01 (decide (Cat.hashKey a = Cat.hashKey b))
  | "eqstr" => some <| run2 pCat pStr ts fun a s => bool01 (Cat.pyEqStr a s)
  | "xor" => some <| run2 pCat pCat ts fun a b => bool01 (Cat.xorEq a b)
  | "clear" => some <| run2 (pList pStr) pCat ts fun args c => encExcept encCat (Cat.clear args c)
  | "parse" => some <| run1 pStr ts fun s => encExcept encCat (Cat.parse s)
  | "print" => some <| run1 pCat ts fun c => encStr c.str
  | "tokenize" => some <| run1 pStr ts fun s => " ".intercalate ((Cat.tokenize s).map encStr)
  | "feq" => some <| run2 pFeat pFeat ts fun a b => bool01 (Feat.pyEq a b)
  | "feqstr" => some <| run2 pFeat pStr ts fun a s => encExcept bool01 (Feat.pyEqStr a s)
  | "fparse" => some <| run1 pStr ts fun s => encExcept (fun f => " ".intercalate (encFeat f)) (Feat.parse s)
  | "funifies" => some <| run2 pFeat pFeat ts fun a b => encExcept bool01 (Feat.unifies a b)
  | "nargs" => some <| run1 pCat ts fun c => toString c.nargs
  | _ => none

/-- driver state: named seen-rule sets and unary tables -/
structure State where
  seen : List (String × List (Cat × Cat)) := []
  unary : List (String × List (Cat × List Cat)) := []

def encRes (r : RuleRes) : String :=
  encCat r.cat ++ " " ++ encStr r.opString ++ " " ++ encStr r.opSymbol ++ " " ++ bool01 r.headLeft

def encResList (rs : List RuleRes) : String :=
  toString rs.length ++ (if rs.isEmpty then "" else " ; " ++ " ; ".intercalate (rs.map encRes))

def pPair : P (Cat × Cat) := fun ts => do
  let (a, ts) ← pCat ts
  let (b, ts) ← pCat ts
  pure ((a, b), ts)

def pUnaryRow : P (Cat × List Cat) := fun ts => do
  let (a, ts) ← pCat ts
  let (bs, ts) ← pList pCat ts
  pure ((a, bs), ts)

def lookupNamed {α} (tbl : List (String × α)) (n : String) : Option α :=
  (tbl.find? fun p => p.1 == n).map (·.2)

def uniOut (px py x y : Cat) : String :=
  match Unify.unify px py x y with
  | .error e => "err " ++ e.name
  | .ok none => "fail"
  | .ok (some σ) =>
    "ok" ++ String.join (σ.cats.map fun (k, _) =>
      " | " ++ encStr k ++ " " ++ (match σ.get k with | .ok c => encCat c | .error e => "err " ++ e.name))

/-- the object protocol: `uniobj px py x y x2 y2 key` : first call, lookup, second call, lookup -/
def uniObjOut (px py x y x2 y2 : Cat) (key : Str) : String :=
  let o0 := Unify.Obj.fresh px py
  let g0 := o0.get key
  let (r1, o1) := o0.call x y
  let g1 := o1.get key
  let (r2, o2) := o1.call x2 y2
  let g2 := o2.get key
  " ; ".intercalate [encExcept encCat g0, encExcept bool01 r1, encExcept encCat g1, encExcept bool01 r2,
    encExcept encCat g2]

def grammarOps (st : State) (op : String) (ts : List String) : Option (State × String) :=
  match op with
  | "set_seen" =>
    match ts with
    | n :: rest =>
      match pList pPair rest with
      | some (ps, []) => some ({ st with seen := (n, ps) :: st.seen.filter (·.1 != n) }, "ok")
      | _ => some (st, bad)
    | _ => some (st, bad)
  | "set_config" =>
    -- `set_config <name> <disable_dict> <disable_seen> <unary pairs> <seen pairs> <targets> <dict>`: the named
    -- seen-rule set and unary table become what `Config.readParams` makes of the raw strings
    match ts with
    | n :: dd :: ds :: rest =>
      match (do
        let (u, ts) ← pList OpsConfig.pPairS rest
        let (s, ts) ← pList OpsConfig.pPairS ts
        let (t, ts) ← pList pStr ts
        let (d, ts) ← pList OpsConfig.pDictS ts
        pure ((u, s, t, d), ts)) with
      | some ((u, s, t, d), []) =>
        match Config.readParams { unaryRules := u, seenRules := s, targets := t, catDict := d } (dd == "1") (ds == "1") with
        | .error e => some (st, "err " ++ e.name)
        | .ok L =>
          match L.seen with
          | some S =>
            some ({ st with seen := (n, S) :: st.seen.filter (·.1 != n), unary := (n, L.table) :: st.unary.filter (·.1 != n) }, "ok")
          | none => some (st, "err Unsupported")          -- (a named set cannot stand for "no filter": use `-`)
      | _ => some (st, bad)
    | _ => some (st, bad)
  | "set_unary" =>
    match ts with
    | n :: rest =>
      match pList pUnaryRow rest with
      | some (rows, []) => some ({ st with unary := (n, rows) :: st.unary.filter (·.1 != n) }, "ok")
      | _ => some (st, bad)
    | _ => some (st, bad)
  | "uni" =>
    some (st, match pCat ts with
      | some (px, ts) => match pCat ts with
        | some (py, ts) => run2 pCat pCat ts fun x y => uniOut px py x y
        | none => bad
      | none => bad)
  | "uniobj" =>
    some (st, match (do
        let (px, ts) ← pCat ts; let (py, ts) ← pCat ts
        let (x, ts) ← pCat ts; let (y, ts) ← pCat ts
        let (x2, ts) ← pCat ts; let (y2, ts) ← pCat ts
        let (k, ts) ← pStr ts
        if ts.isEmpty then pure (uniObjOut px py x y x2 y2 k) else none) with
      | some r => r
      | none => bad)
  | "en_bin" | "ja_bin" =>
    match ts with
    | n :: rest =>
      let seen : Option (Option (List (Cat × Cat))) :=
        if n == "-" then some none else (lookupNamed st.seen n).map some
      match seen with
      | none => some (st, bad)
      | some sn =>
        some (st, run2 pCat pCat rest fun x y =>
          encExcept encResList (if op == "en_bin" then En.applyBinary sn x y else Ja.applyBinary sn x y))
    | _ => some (st, bad)
  | "en_un" | "ja_un" =>
    match ts with
    | n :: rest =>
      match lookupNamed st.unary n with
      | none => some (st, bad)
      | some tbl =>
        some (st, run1 pCat rest fun x =>
          if op == "en_un" then "ok " ++ encResList (En.applyUnary tbl x)
          else encExcept encResList (Ja.applyUnary tbl x))
    | _ => some (st, bad)
  | _ => none

def dispatch (st : State) (line : String) : State × String :=
  match line.splitOn " " with
  | op :: ts =>
    if op == "search" then (st, OpsSearch.searchOp ts) else
    if op == "beam" then (st, OpsSearch.beamOp ts) else
    if let some r := OpsGlue.dispatch op ts then (st, r) else
    if let some r := OpsTree.dispatch op ts then (st, r) else
    if let some r := OpsXml.dispatch op ts then (st, r) else
    if op == "retrieve" then (st, OpsMore.retrieveOp ts) else
    if op == "gluetable" then (st, OpsMore.gluetableOp ts) else
    if op == "treescore" then (st, OpsLazy.treeScoreOp ts) else
    if op == "read_params" then (st, OpsConfig.readParamsOp ts) else
    if op == "numfmt" then (st, OpsLazy.numFmtOp ts) else
    if op == "numfmt_fe" then (st, OpsLazy.numFmtFeOp ts) else
    if op == "cli" then
      (st, OpsLazy.cliOp (fun n => if n == "-" then some none else (lookupNamed st.seen n).map some)
        (fun n => lookupNamed st.unary n) ts) else
    if op == "lazyrun" then
      (st, OpsLazy.lazyOp (fun n => if n == "-" then some none else (lookupNamed st.seen n).map some)
        (fun n => lookupNamed st.unary n) ts) else
    if let some r := OpsMore.dispatch op ts then (st, r) else
    match catOps op ts with
    | some r => (st, r)
    | none =>
      match grammarOps st op ts with
      | some r => r
      | none => (st, bad)
  | [] => (st, bad)

end Ops
end Depccg
