/-
  Model of `parse_sentence` in depccg/parsing.h : agenda-based A* over (span, category) items
  with the tag + dependency outside estimate, 1-best closed set / n-best mode, goal list.
  Categories are ids (`Nat`), scores are `Int` (the harness feeds the C++ exactly representable
  floats `k * 2^-s` and the model `k`), back-pointers are values (`Deriv`).
  The agenda discipline (`std::priority_queue`) is the parameter `pick`; `pickHeap` is libstdc++'s
  binary heap, `pickFirstMax` the simplest admissible one.
-/
namespace Depccg
namespace Search

/-- one grammar result; its position in the list is the `rule_id` -/
structure Rule where
  cat : Nat
  headLeft : Bool
  deriving DecidableEq, Repr

structure Grammar where
  bin : Nat → Nat → List Rule
  un : Nat → List Nat

inductive Deriv where
  | leaf (tok : Nat) (cat : Nat)
  | un (cat : Nat) (rule : Nat) (d : Deriv)
  | bin (cat : Nat) (rule : Nat) (headLeft : Bool) (l r : Deriv)
  deriving DecidableEq, Repr

structure Item where
  fin : Bool
  cat : Nat
  inS : Int
  outS : Int
  start : Nat
  len : Nat
  head : Nat
  rule : Nat
  d : Deriv
  deriving DecidableEq, Repr

def Item.prio (i : Item) : Int := i.inS + i.outS
def Item.stop (i : Item) : Nat := i.start + i.len

structure Cfg where
  penalty : Int
  pruning : Nat
  nbest : Nat
  maxStep : Nat
  deriving Repr

structure Sent where
  n : Nat
  tags : List (List Int)        -- n rows, one score per category id
  deps : List (List Int)        -- n rows of n+1 scores; column 0 is the root
  roots : List Nat
  passes : List (List Bool)     -- per token: does the i-th best candidate pass the beta test?

def getI (l : List Int) (i : Nat) : Int := l.getD i 0
def tagAt (s : Sent) (tok cat : Nat) : Int := getI (s.tags.getD tok []) cat
def depAt (s : Sent) (tok col : Nat) : Int := getI (s.deps.getD tok []) col

/-- maximum of a row (`top()` of the per-token queue / `dep[argmax]`); 0 on an empty row, which
    the real code never sees (`num_tags ≥ 1`, `length + 1 ≥ 1`) -/
def rowMax : List Int → Int
  | [] => 0
  | x :: xs => xs.foldl max x

def bestTag (s : Sent) (tok : Nat) : Int := rowMax (s.tags.getD tok [])
def bestDep (s : Sent) (tok : Nat) : Int := rowMax (s.deps.getD tok [])

/-- `sumTo f k = f 0 + … + f (k-1)` -/
def sumTo (f : Nat → Int) : Nat → Int
  | 0 => 0
  | k + 1 => sumTo f k + f k

/-- `from_left[i]` of `compute_outside_probabilities`: the loop writes entries `1 … n-1`,
    entry `n` keeps its initial 0 -/
def fromLeft (f : Nat → Int) (n i : Nat) : Int := if i < n then sumTo f i else 0

/-- `from_right[j]`: entries `1 … n-1` written, entries `0` and `n` are 0 -/
def fromRight (f : Nat → Int) (n j : Nat) : Int :=
  if 0 < j ∧ j ≤ n then sumTo f n - sumTo f j else 0

/-- `out(i, j)` -/
def outside (f : Nat → Int) (n i j : Nat) : Int := fromLeft f n i + fromRight f n j

def depLeafOut (s : Sent) : Int := sumTo (bestDep s) s.n

/-- the outside estimate of a binary item over `[st, en)` headed by token `h`
    (after the `fix:` of the sign of the head term) -/
def binOut (s : Sent) (st en h : Nat) : Int :=
  outside (bestTag s) s.n st en + outside (bestDep s) s.n st en + bestDep s h

def leafOut (s : Sent) (tok : Nat) : Int :=
  outside (bestTag s) s.n tok (tok + 1) + depLeafOut s

/-! ### the supertag beam -/

/-- insert into a list sorted by (score desc, id desc) — the order in which
    `std::priority_queue<pair<float, unsigned>>` yields its elements -/
def insertCand (c : Int × Nat) : List (Int × Nat) → List (Int × Nat)
  | [] => [c]
  | d :: ds => if d.1 < c.1 ∨ (d.1 = c.1 ∧ d.2 < c.2) then c :: d :: ds else d :: insertCand c ds

def sortCands (l : List (Int × Nat)) : List (Int × Nat) := l.foldr insertCand []

def enumFrom (i : Nat) : List Int → List (Int × Nat)
  | [] => []
  | x :: xs => (x, i) :: enumFrom (i + 1) xs

def candidates (s : Sent) (tok : Nat) : List (Int × Nat) :=
  sortCands (enumFrom 0 (s.tags.getD tok []))

/-- the pruning loop: at most `pruning` candidates, stop at the first that fails the test -/
def admitLoop : Nat → List (Int × Nat) → List Bool → List (Int × Nat)
  | 0, _, _ => []
  | _, [], _ => []
  | k + 1, c :: cs, ps =>
    match ps with
    | p :: ps' => if p then c :: admitLoop k cs ps' else []
    | [] => c :: admitLoop k cs []        -- filter disabled: everything passes

def admitted (s : Sent) (cfg : Cfg) (tok : Nat) : List (Int × Nat) :=
  admitLoop cfg.pruning (candidates s tok) (s.passes.getD tok [])

def leafItem (s : Sent) (tok : Nat) (c : Int × Nat) : Item :=
  { fin := false, cat := c.2, inS := c.1, outS := leafOut s tok, start := tok, len := 1,
    head := tok, rule := 0, d := .leaf tok c.2 }

def leafItems (s : Sent) (cfg : Cfg) : List Item :=
  (List.range s.n).flatMap fun tok => (admitted s cfg tok).map (leafItem s tok)

/-! ### one iteration of the search loop -/

def finItem (s : Sent) (it : Item) : Item :=
  { it with fin := true, inS := it.inS + depAt s it.head 0, outS := 0 }

def unaryItems (g : Grammar) (cfg : Cfg) (it : Item) : List Item :=
  (g.un it.cat).zipIdx.map fun (c, rid) =>
    { it with cat := c, inS := it.inS - cfg.penalty, rule := rid, d := .un c rid it.d }

/-- combine `l` (left) and `r` (right), adjacent -/
def binaryItems (g : Grammar) (s : Sent) (l r : Item) : List Item :=
  (g.bin l.cat r.cat).zipIdx.map fun (rule, rid) =>
    let head := if rule.headLeft then l.head else r.head
    let child := if rule.headLeft then r.head else l.head
    { fin := false, cat := rule.cat, inS := l.inS + r.inS + depAt s child (head + 1),
      outS := binOut s l.start (l.start + (l.len + r.len)) head,
      start := l.start, len := l.len + r.len, head := head, rule := rid,
      d := .bin rule.cat rid rule.headLeft l.d r.d }

structure St where
  agenda : List Item
  chart : List Item           -- every item that entered the chart, most recent first
  goal : List Item
  popped : List Item          -- trace, most recent first
  steps : Nat
  tie : Bool := false         -- did two agenda items ever share the maximal priority at a pop?
  deriving Repr

/-- keys in the order of their first occurrence -/
def firstSeen (keys : List Nat) : List Nat :=
  keys.foldl (fun acc k => if acc.elem k then acc else acc ++ [k]) []

/-- the chart items satisfying `p`, in the order in which `parse_sentence` walks them:
    cell after cell in the order in which the cells were first touched
    (`cells_starting_at` / `cells_ending_at` are vectors filled on first access; for a fixed start
    or a fixed end a cell is determined by its span length), inside a cell the most recent item
    first (`push_front`) -/
def neighbours (chart : List Item) (p : Item → Bool) : List Item :=
  let cand := chart.filter p
  (firstSeen (cand.reverse.map (·.len))).flatMap fun len => cand.filter (fun o => o.len == len)

/-- what is pushed when `it` has just entered the chart, in the order of the pushes -/
def expand (g : Grammar) (s : Sent) (cfg : Cfg) (chart : List Item) (it : Item) : List Item :=
  (if it.len = s.n ∧ s.roots.elem it.cat then [finItem s it] else [])
  ++ (if s.n = 1 ∨ it.len ≠ s.n then unaryItems g cfg it else [])
  ++ (neighbours chart fun o => o.start == it.stop).flatMap (fun o => binaryItems g s it o)
  ++ (neighbours chart fun o => o.stop == it.start).flatMap (fun o => binaryItems g s o it)

/-- already closed? (1-best mode only) -/
def inChart (chart : List Item) (it : Item) : Bool :=
  chart.any fun o => o.start = it.start ∧ o.len = it.len ∧ o.cat = it.cat

def inGoal (goal : List Item) (it : Item) : Bool := goal.any fun o => o.cat = it.cat

/-- an agenda discipline: `pop` removes one element of maximal priority from a non-empty agenda,
    `push new old` adds the items `new` (in this order) to the agenda `old` -/
structure Pick where
  pop : List Item → Option (Item × List Item)
  push : List Item → List Item → List Item

def stepWith (pick : Pick) (g : Grammar) (s : Sent) (cfg : Cfg) (st : St) : Option St :=
  if cfg.nbest ≤ st.goal.length then none else
  match pick.pop st.agenda with
  | none => none
  | some (it, rest) =>
    let st := { st with agenda := rest, popped := it :: st.popped, steps := st.steps + 1,
                          tie := st.tie || rest.any fun o => o.prio == it.prio }
    if it.fin then
      if cfg.nbest ≤ 1 ∧ inGoal st.goal it then some st
      else some { st with goal := it :: st.goal }
    else if cfg.nbest ≤ 1 ∧ inChart st.chart it then some st
    else
      some { st with chart := it :: st.chart, agenda := pick.push (expand g s cfg st.chart it) st.agenda }

def loop (pick : Pick) (g : Grammar) (s : Sent) (cfg : Cfg) : Nat → St → St
  | 0, st => st
  | fuel + 1, st =>
    match stepWith pick g s cfg st with
    | none => st
    | some st' => loop pick g s cfg fuel st'

def init (pick : Pick) (s : Sent) (cfg : Cfg) : St :=
  { agenda := pick.push (leafItems s cfg) [], chart := [], goal := [], popped := [], steps := 0 }

/-- stable insertion by priority, descending (`std::list::sort` with `score() >` is stable; the
    goal cell is filled with `push_front`, i.e. it is `goal` as kept here) -/
def insertDesc (it : Item) : List Item → List Item
  | [] => [it]
  | o :: os => if o.prio ≤ it.prio then it :: o :: os else o :: insertDesc it os

def sortDesc (l : List Item) : List Item := l.foldr insertDesc []

structure Outcome where
  results : List Item           -- empty = failed (status 1)
  popped : List Item            -- in pop order
  steps : Nat
  tie : Bool

def runWith (pick : Pick) (g : Grammar) (s : Sent) (cfg : Cfg) : Outcome :=
  let st := loop pick g s cfg cfg.maxStep (init pick s cfg)
  { results := sortDesc st.goal, popped := st.popped.reverse, steps := st.steps, tie := st.tie }

/-! ### the simplest agenda: a list, the first element of maximal priority is taken -/

def maxPrio : List Item → Option Int
  | [] => none
  | x :: xs => some (xs.foldl (fun m i => max m i.prio) x.prio)

def removeFirst (p : Item → Bool) : List Item → Option (Item × List Item)
  | [] => none
  | x :: xs =>
    if p x then some (x, xs) else
    match removeFirst p xs with
    | some (y, rest) => some (y, x :: rest)
    | none => none

def popFirstMax (l : List Item) : Option (Item × List Item) :=
  match maxPrio l with
  | none => none
  | some m => removeFirst (fun i => i.prio == m) l

def pickFirstMax : Pick := { pop := popFirstMax, push := fun new old => new ++ old }

/-! ### libstdc++'s `std::priority_queue<cell_item>` : a binary max-heap in a vector

`push` = `push_back` + `std::push_heap` (`__push_heap`: the new value climbs while its parent is
strictly smaller); `pop` = `std::pop_heap` + `pop_back` (`__adjust_heap`: the hole left by the root
sinks to the bottom, always towards the child that is not smaller than its sibling - the right one on
a tie -, then the former last element is put into the hole and climbs). Written with swaps: the
travelling value is never compared with itself, so the arrangements are those of the hole
formulation. -/

/-- `__push_heap` from index `i` (fuel ≥ depth of `i`) -/
def siftUp (a : Array Item) : Nat → Nat → Array Item
  | 0, _ => a
  | fuel + 1, i =>
    if i = 0 then a else
    let p := (i - 1) / 2
    match a[p]?, a[i]? with
    | some x, some v => if x.prio < v.prio then siftUp (a.swapIfInBounds p i) fuel p else a
    | _, _ => a

def heapPush (a : Array Item) (v : Item) : Array Item :=
  siftUp (a.push v) (a.size + 1) a.size

/-- the sinking phase of `__adjust_heap` on the first `len` elements; returns the final hole -/
def sink (len : Nat) (a : Array Item) : Nat → Nat → Array Item × Nat
  | 0, h => (a, h)
  | fuel + 1, h =>
    if h < (len - 1) / 2 then
      let c := 2 * (h + 1)
      let c := match a[c]?, a[c - 1]? with
        | some r, some l => if r.prio < l.prio then c - 1 else c
        | _, _ => c
      sink len (a.swapIfInBounds h c) fuel c
    else if len % 2 = 0 ∧ h = (len - 2) / 2 then
      (a.swapIfInBounds h (2 * (h + 1) - 1), 2 * (h + 1) - 1)
    else (a, h)

/-- `top()` + `pop()` -/
def heapPop (a : Array Item) : Option (Item × Array Item) :=
  match a[0]? with
  | none => none
  | some top =>
    if a.size = 1 then some (top, #[]) else
    let b := (a.swapIfInBounds 0 (a.size - 1)).pop
    let (b, h) := sink b.size b b.size 0
    some (top, siftUp b (h + 1) h)

/-- the agenda list is the heap's vector. `pop` must return a maximal element for *every* list
    (`PickOK`), so it checks that the front is maximal - which it is whenever the list was built by
    `push`/`pop` alone, as in every run - and otherwise falls back to `popFirstMax` -/
def popHeap (l : List Item) : Option (Item × List Item) :=
  match l with
  | [] => none
  | top :: _ =>
    if l.all (fun o => o.prio ≤ top.prio) then
      match heapPop l.toArray with
      | some (it, rest) => some (it, rest.toList)
      | none => none
    else popFirstMax l

def pushHeap (new old : List Item) : List Item := (new.foldl heapPush old.toArray).toList

def pickHeap : Pick := { pop := popHeap, push := pushHeap }

/-- the driver's search: the agenda of the real code -/
def run (g : Grammar) (s : Sent) (cfg : Cfg) : Outcome := runWith pickHeap g s cfg

end Search
end Depccg
