/-
  Driver side for `read_params` (Config.lean).
-/
import Depccg.Wire
import Depccg.Config

namespace Depccg
namespace OpsConfig
open Wire Config

def pPairS : P (Str × Str) := fun ts => do
  let (a, ts) ← pStr ts
  let (b, ts) ← pStr ts
  pure ((a, b), ts)

def pDictS : P (Str × List Str) := fun ts => do
  let (w, ts) ← pStr ts
  let (cs, ts) ← pList pStr ts
  pure ((w, cs), ts)

def dedup : List String → List String
  | a :: b :: rest => if a == b then dedup (b :: rest) else a :: dedup (b :: rest)
  | l => l

/-- a set of pairs: sorted, duplicates removed (the harness does the same with the real set) -/
def encSeen : Option (List (Cat × Cat)) → String
  | none => "none"
  | some s =>
    let items := dedup ((s.map fun (a, b) => encCat a ++ " , " ++ encCat b).mergeSort (fun a b => decide (a ≤ b)))
    "some " ++ toString items.length ++ String.join (items.map fun i => " ; " ++ i)

def encLoaded (l : Loaded) : String :=
  "T " ++ toString l.table.length ++ String.join (l.table.map fun (k, vs) =>
      " ; " ++ encCat k ++ " -> " ++ toString vs.length ++ String.join (vs.map fun v => " , " ++ encCat v))
    ++ " | S " ++ encSeen l.seen
    ++ " | R " ++ toString l.roots.length ++ String.join (l.roots.map fun c => " ; " ++ encCat c)
    ++ " | D " ++ (match l.catDict with
        | none => "none"
        | some d => "some " ++ toString d.length ++ String.join (d.map fun (w, cs) =>
            " ; " ++ encStr w ++ " " ++ toString cs.length ++ String.join (cs.map fun c => " , " ++ encCat c)))

/-- `read_params <disable_dict> <disable_seen> <unary pairs> <seen pairs> <targets> <dict>` -/
def readParamsOp (ts : List String) : String :=
  match ts with
  | dd :: ds :: rest =>
    match (do
      let (u, ts) ← pList pPairS rest
      let (s, ts) ← pList pPairS ts
      let (t, ts) ← pList pStr ts
      let (d, ts) ← pList pDictS ts
      pure ((u, s, t, d), ts)) with
    | some ((u, s, t, d), []) =>
      encExcept encLoaded (readParams { unaryRules := u, seenRules := s, targets := t, catDict := d } (dd == "1") (ds == "1"))
    | _ => "bad-op"
  | _ => "bad-op"

end OpsConfig
end Depccg
