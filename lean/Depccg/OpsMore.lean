/-
  Driver side for json / deriv / prolog / to_string.
-/
import Depccg.OpsXml
import Depccg.Print.More
import Depccg.Print.Html
import Depccg.GlueTree

namespace Depccg
namespace OpsMore
open Wire OpsTree Print

partial def encJTree : JTree → String
  | .leaf fs => "L " ++ toString fs.length ++ String.join (fs.map fun (k, v) => " " ++ encStr k ++ " " ++ encStr v)
  | .node ty c kids => "N " ++ encStr ty ++ " " ++ encStr c ++ " " ++ toString kids.length ++
      String.join (kids.map fun k => " " ++ encJTree k)

def pScored : P (Tree × Str) := fun ts => do
  let (s, ts) ← pStr ts
  let (t, ts) ← pTree ts
  pure ((t, s), ts)

partial def encHSkel : HSkel → String
  | .leaf w segs => "L " ++ encStr w ++ " " ++ toString segs.length ++
      String.join (segs.map fun (a, b) => " " ++ encStr a ++ " " ++ encStr b)
  | .node op segs kids => "N " ++ encStr op ++ " " ++ toString segs.length ++
      String.join (segs.map fun (a, b) => " " ++ encStr a ++ " " ++ encStr b) ++ " " ++ toString kids.length ++
      String.join (kids.map fun k => " " ++ encHSkel k)

def fmtOf (name : String) : Option (Tree → Except Err Str) :=
  match name with
  | "auto" => some autoOf
  | "auto_extended" => some autoExtOf
  | "conll" => some conllOf
  | "ptb" => some ptbOf
  | "ja" => some jaOf
  | "deriv" => some derivOf
  | _ => none

def dispatch (op : String) (ts : List String) : Option String :=
  match op with
  | "json" => some (match pTree ts with
      | some (t, []) => "ok " ++ encJTree (jsonOf t)
      | _ => "bad-op")
  | "deriv" => some (printOp derivOf ts)
  | "mathml_cat" => some (match pStr ts with
      | some (s, []) => "ok " ++ " ; ".intercalate ((mathmlCat s).map fun (a, b) => encStr a ++ " " ++ encStr b)
      | _ => "bad-op")
  | "html_sub" => some (printOp mathmlSubtree ts)
  | "html_read" => some (match pTree ts with
      | some (t, []) =>
        match mathmlSubtree t with
        | .ok s => (match readMathml s with | some sk => "ok " ++ encHSkel sk | none => "unreadable")
        | .error e => "err " ++ e.name
      | _ => "bad-op")
  | "html_skel" => some (match pTree ts with
      | some (t, []) => encExcept encHSkel (skelOf t)
      | _ => "bad-op")
  | "html" => some (match pList (pList pScored) ts with
      | some (b, []) => encExcept encStr (toMathml (b.map fun l => l.map fun (t, sc) => (t, some sc)))
      | _ => "bad-op")
  | "html_plain" => some (match pList (pList pTree) ts with
      | some (b, []) => encExcept encStr (toMathml (b.map fun l => l.map fun t => (t, none)))
      | _ => "bad-op")
  | "prolog_en" => some (match OpsXml.pBatch ts with
      | some (b, []) => encExcept encStr (prologEn b)
      | _ => "bad-op")
  | "prolog_ja" => some (match OpsXml.pBatch ts with
      | some (b, []) => encExcept encStr (prologJa b)
      | _ => "bad-op")
  | "tostring" => some (match ts with
      | name :: rest =>
        match fmtOf name, pList (pList pScored) rest with
        | some f, some (b, []) => encExcept encStr (toStringLines f (name == "conll") b)
        | _, _ => "bad-op"
      | [] => "bad-op")
  | _ => none

end OpsMore
end Depccg

namespace Depccg
namespace OpsMore
open Wire OpsTree GlueTree Search

partial def pDeriv : P Deriv
  | "L" :: ts => do let (t, ts) ← pNat ts; let (c, ts) ← pNat ts; pure (.leaf t c, ts)
  | "U" :: ts => do
    let (c, ts) ← pNat ts; let (r, ts) ← pNat ts; let (d, ts) ← pDeriv ts; pure (.un c r d, ts)
  | "B" :: ts => do
    let (c, ts) ← pNat ts; let (r, ts) ← pNat ts; let (h, ts) ← pNat ts
    let (l, ts) ← pDeriv ts; let (rr, ts) ← pDeriv ts; pure (.bin c r (h != 0) l rr, ts)
  | _ => none

def pEntry : P CacheEntry := fun ts => do
  let (c, ts) ← pNat ts; let (h, ts) ← pNat ts; let (s, ts) ← pStr ts; let (y, ts) ← pStr ts
  pure (⟨c, h != 0, s, y⟩, ts)

def pBinRow : P ((Nat × Nat) × List CacheEntry) := fun ts => do
  let (x, ts) ← pNat ts; let (y, ts) ← pNat ts; let (es, ts) ← pList pEntry ts; pure (((x, y), es), ts)

def pUnRow : P (Nat × List CacheEntry) := fun ts => do
  let (x, ts) ← pNat ts; let (es, ts) ← pList pEntry ts; pure ((x, es), ts)

/-- `retrieve <cats> <bin rows> <un rows> <tokens> <deriv>` -/
def retrieveOp (ts : List String) : String :=
  match (do
    let (cats, ts) ← pList pCat ts
    let (bins, ts) ← pList pBinRow ts
    let (uns, ts) ← pList pUnRow ts
    let (toks, ts) ← pList pTok ts
    let (d, ts) ← pDeriv ts
    if ts.isEmpty then
      let T : Tables := {
        cats := fun i => cats[i]?,
        bin := fun x y => match bins.find? fun r => r.1.1 == x && r.1.2 == y with | some r => r.2 | none => [],
        un := fun x => match uns.find? fun r => r.1 == x with | some r => r.2 | none => [] }
      pure (retrieve T toks d)
    else none) with
  | some r => encExcept encTree r
  | none => "bad-op"

end OpsMore
end Depccg
