/-
  Driver side for json / deriv / prolog / to_string.
-/
import Depccg.OpsXml
import Depccg.Print.More

namespace Depccg
namespace OpsMore
open Wire OpsTree Print

partial def encJTree : JTree → String
  | .leaf fs => "L " ++ toString fs.length ++ String.join (fs.map fun (k, v) => " " ++ encStr k ++ " " ++ encStr v)
  | .node ty c kids => "N " ++ encStr ty ++ " " ++ encStr c ++ " " ++ toString kids.length ++
      String.join (kids.map fun k => " " ++ encJTree k)

def pScored : P (Tree × Str) := fun ts => do
  let (s, ts) ← pStr ts
  let (t, ts) ← pTree ts
  pure ((t, s), ts)

def fmtOf (name : String) : Option (Tree → Except Err Str) :=
  match name with
  | "auto" => some autoOf
  | "auto_extended" => some autoExtOf
  | "conll" => some conllOf
  | "ptb" => some ptbOf
  | "ja" => some jaOf
  | "deriv" => some derivOf
  | _ => none

def dispatch (op : String) (ts : List String) : Option String :=
  match op with
  | "json" => some (match pTree ts with
      | some (t, []) => "ok " ++ encJTree (jsonOf t)
      | _ => "bad-op")
  | "deriv" => some (printOp derivOf ts)
  | "mathml_cat" => some (match pStr ts with
      | some (s, []) => "ok " ++ " ; ".intercalate ((mathmlCat s).map fun (a, b) => encStr a ++ " " ++ encStr b)
      | _ => "bad-op")
  | "prolog_en" => some (match OpsXml.pBatch ts with
      | some (b, []) => encExcept encStr (prologEn b)
      | _ => "bad-op")
  | "prolog_ja" => some (match OpsXml.pBatch ts with
      | some (b, []) => encExcept encStr (prologJa b)
      | _ => "bad-op")
  | "tostring" => some (match ts with
      | name :: rest =>
        match fmtOf name, pList (pList pScored) rest with
        | some f, some (b, []) => encExcept encStr (toStringLines f (name == "conll") b)
        | _, _ => "bad-op"
      | [] => "bad-op")
  | _ => none

end OpsMore
end Depccg
