/-
  Driver side for json / deriv / prolog / to_string.
-/
import Depccg.OpsXml
import Depccg.Print.More
import Depccg.Print.Html
import Depccg.Print.Json
import Depccg.Print.XmlText
import Depccg.GlueTree
import Depccg.GlueRun
import Depccg.Read.Deriv
import Depccg.Read.Prolog
import Depccg.Read.Conll
import Depccg.Read.ConllDoc
import Depccg.Read.LineDoc
import Depccg.Read.BlockDoc
import Depccg.Read.Json
import Depccg.Read.XmlText

namespace Depccg
namespace OpsMore
open Wire OpsTree Print

partial def encJTree : JTree → String
  | .leaf fs => "L " ++ toString fs.length ++ String.join (fs.map fun (k, v) => " " ++ encStr k ++ " " ++ encStr v)
  | .node ty c kids => "N " ++ encStr ty ++ " " ++ encStr c ++ " " ++ toString kids.length ++
      String.join (kids.map fun k => " " ++ encJTree k)

/-- the view the Lean `deriv` reader returns -/
def encDView : Read.DView → String
  | .leaf c w => "L " ++ encStr c ++ " " ++ encStr w
  | .un c y k => "U " ++ encStr c ++ " " ++ encStr y ++ " " ++ encDView k
  | .bin c y l r => "B " ++ encStr c ++ " " ++ encStr y ++ " " ++ encDView l ++ " " ++ encDView r

/-- the view the Lean Prolog reader returns -/
partial def encPView : Read.PView → String
  | .leaf c fs => "L " ++ encStr c ++ " " ++ toString fs.length ++ String.join (fs.map fun f => " " ++ encStr f)
  | .node f c ex kids => "N " ++ encStr f ++ " " ++ encStr c ++ " " ++ toString ex.length ++ String.join (ex.map fun e => " " ++ encStr e)
      ++ " " ++ toString kids.length ++ String.join (kids.map fun k => " " ++ encPView k)

def pScored : P (Tree × Str) := fun ts => do
  let (s, ts) ← pStr ts
  let (t, ts) ← pTree ts
  pure ((t, s), ts)

/-- a score as the numerator of `k/64`, or `ninf` for the failure placeholder -/
def pScoredK : P (Tree × Option Int) := fun ts =>
  match ts with
  | "ninf" :: rest => do
    let (t, ts) ← pTree rest
    pure ((t, none), ts)
  | _ => do
    let (k, ts) ← pInt ts
    let (t, ts) ← pTree ts
    pure ((t, some k), ts)

partial def encHSkel : HSkel → String
  | .leaf w segs => "L " ++ encStr w ++ " " ++ toString segs.length ++
      String.join (segs.map fun (a, b) => " " ++ encStr a ++ " " ++ encStr b)
  | .node op segs kids => "N " ++ encStr op ++ " " ++ toString segs.length ++
      String.join (segs.map fun (a, b) => " " ++ encStr a ++ " " ++ encStr b) ++ " " ++ toString kids.length ++
      String.join (kids.map fun k => " " ++ encHSkel k)

def fmtOf (name : String) : Option (Tree → Except Err Str) :=
  match name with
  | "auto" => some autoOf
  | "auto_extended" => some autoExtOf
  | "conll" => some conllOf
  | "ptb" => some ptbOf
  | "ja" => some jaOf
  | "deriv" => some derivOf
  | _ => none

def dispatch (op : String) (ts : List String) : Option String :=
  match op with
  | "json" => some (match pTree ts with
      | some (t, []) => "ok " ++ encJTree (jsonOf t)
      | _ => "bad-op")
  | "json_text" => some (match pList (pList pScoredK) ts with
      | some (b, []) => "ok " ++ encStr (jsonText b)
      | _ => "bad-op")
  | "xml_text" => some (match OpsXml.pBatch ts with
      | some (b, []) => encExcept encStr (Xml.xmlText b)
      | _ => "bad-op")
  | "jigg_text" => some (match ts with
      | u :: rest => (match pList (pList pScoredK) rest with
        | some (b, []) => encExcept encStr (Xml.jiggText (u == "1") b)
        | _ => "bad-op")
      | [] => "bad-op")
  | "read_xml_text" => some (match pLang ts with
      | some (lang, rest) => (match pStr rest with
        | some (s, []) => (match Read.readXmlText s with
          | none => "unreadable"
          | some ccgs => (match OpsXml.readXmlAll lang ccgs with
            | .ok rs => "ok " ++ OpsXml.encReads rs
            | .error e => "err " ++ e.name))
        | _ => "bad-op")
      | none => "bad-op")
  | "read_jigg_text" => some (match pLang ts with
      | some (lang, rest) => (match pStr rest with
        | some (s, []) => (match Read.readJiggText s with
          | none => "unreadable"
          | some ss => (match OpsXml.readJiggAll lang ss with
            | .ok rs => "ok " ++ OpsXml.encReads rs
            | .error e => "err " ++ e.name))
        | _ => "bad-op")
      | none => "bad-op")
  | "json_read" => some (match pStr ts with
      | some (s, []) => (match Read.readJsonOutput s with
        | some sents => "ok " ++ toString sents.length ++ String.join (sents.map fun (n, es) =>
            " || " ++ toString n ++ " " ++ toString es.length ++ String.join (es.map fun (t, sc) =>
              " " ++ (match sc with | some k => toString k | none => "ninf") ++ " " ++ encJTree t))
        | none => "none")
      | _ => "bad-op")
  | "deriv" => some (printOp derivOf ts)
  | "mathml_cat" => some (match pStr ts with
      | some (s, []) => "ok " ++ " ; ".intercalate ((mathmlCat s).map fun (a, b) => encStr a ++ " " ++ encStr b)
      | _ => "bad-op")
  | "html_sub" => some (printOp mathmlSubtree ts)
  | "html_read" => some (match pTree ts with
      | some (t, []) =>
        match mathmlSubtree t with
        | .ok s => (match readMathml s with | some sk => "ok " ++ encHSkel sk | none => "unreadable")
        | .error e => "err " ++ e.name
      | _ => "bad-op")
  | "html_skel" => some (match pTree ts with
      | some (t, []) => encExcept encHSkel (skelOf t)
      | _ => "bad-op")
  | "html" => some (match pList (pList pScored) ts with
      | some (b, []) => encExcept encStr (toMathml (b.map fun l => l.map fun (t, sc) => (t, some sc)))
      | _ => "bad-op")
  | "html_plain" => some (match pList (pList pTree) ts with
      | some (b, []) => encExcept encStr (toMathml (b.map fun l => l.map fun t => (t, none)))
      | _ => "bad-op")
  | "prolog_en" => some (match OpsXml.pBatch ts with
      | some (b, []) => encExcept encStr (prologEn b)
      | _ => "bad-op")
  | "prolog_ja" => some (match OpsXml.pBatch ts with
      | some (b, []) => encExcept encStr (prologJa b)
      | _ => "bad-op")
  | "conll_dec" => some (match pStr ts with
      | some (s, []) => (match Read.decConll s with
        | some rows => "ok " ++ toString rows.length ++ String.join (rows.map fun r =>
            " || " ++ toString r.id ++ " " ++ encStr r.word ++ " " ++ encStr r.lemma ++ " " ++ encStr r.pos ++ " " ++ encStr r.pos2
              ++ " " ++ toString r.head ++ " " ++ encStr r.cat)
        | none => "none")
      | _ => "bad-op")
  | "conll_doc" => some (match pStr ts with
      | some (s, []) => (match Read.decConllDoc s with
        | some recs => "ok " ++ toString recs.length ++ String.join (recs.map fun (n, sc, rows) =>
            " ## " ++ toString n ++ " " ++ encStr sc ++ " " ++ toString rows.length ++ String.join (rows.map fun r =>
              " || " ++ toString r.id ++ " " ++ encStr r.word ++ " " ++ encStr r.lemma ++ " " ++ encStr r.pos ++ " " ++ encStr r.pos2
                ++ " " ++ toString r.head ++ " " ++ encStr r.cat))
        | none => "none")
      | _ => "bad-op")
  | "line_doc" => some (match pStr ts with
      | some (s, []) => (match Read.decLineDoc s with
        | some recs => "ok " ++ toString recs.length ++ String.join (recs.map fun (n, sc, line) =>
            " ## " ++ toString n ++ " " ++ encStr sc ++ " " ++ encStr line)
        | none => "none")
      | _ => "bad-op")
  | "block_doc" => some (match pStr ts with
      | some (s, []) => (match Read.decBlockDoc s with
        | some recs => "ok " ++ toString recs.length ++ String.join (recs.map fun (n, sc, block) =>
            " ## " ++ toString n ++ " " ++ encStr sc ++ " " ++ encStr block)
        | none => "none")
      | _ => "bad-op")
  | "prolog_dec" => some (match pStr ts with
      | some (s, []) => (match Read.decProlog s with
        | some rs => "ok " ++ toString rs.length ++ String.join (rs.map fun (i, v) => " || " ++ toString i ++ " " ++ encPView v)
        | none => "none")
      | _ => "bad-op")
  | "deriv_dec" => some (match pStr ts with
      | some (s, []) => (match Read.decDeriv s with | some v => "ok " ++ encDView v | none => "none")
      | _ => "bad-op")
  | "tostring" => some (match ts with
      | name :: rest =>
        match fmtOf name, pList (pList pScored) rest with
        | some f, some (b, []) => encExcept encStr (toStringLines f (name == "conll") b)
        | _, _ => "bad-op"
      | [] => "bad-op")
  | _ => none

end OpsMore
end Depccg

namespace Depccg
namespace OpsMore
open Wire OpsTree GlueTree Search

partial def pDeriv : P Deriv
  | "L" :: ts => do let (t, ts) ← pNat ts; let (c, ts) ← pNat ts; pure (.leaf t c, ts)
  | "U" :: ts => do
    let (c, ts) ← pNat ts; let (r, ts) ← pNat ts; let (d, ts) ← pDeriv ts; pure (.un c r d, ts)
  | "B" :: ts => do
    let (c, ts) ← pNat ts; let (r, ts) ← pNat ts; let (h, ts) ← pNat ts
    let (l, ts) ← pDeriv ts; let (rr, ts) ← pDeriv ts; pure (.bin c r (h != 0) l rr, ts)
  | _ => none

def pEntry : P CacheEntry := fun ts => do
  let (c, ts) ← pNat ts; let (h, ts) ← pNat ts; let (s, ts) ← pStr ts; let (y, ts) ← pStr ts
  pure (⟨c, h != 0, s, y⟩, ts)

def pBinRow : P ((Nat × Nat) × List CacheEntry) := fun ts => do
  let (x, ts) ← pNat ts; let (y, ts) ← pNat ts; let (es, ts) ← pList pEntry ts; pure (((x, y), es), ts)

def pUnRow : P (Nat × List CacheEntry) := fun ts => do
  let (x, ts) ← pNat ts; let (es, ts) ← pList pEntry ts; pure ((x, es), ts)

/-- `retrieve <cats> <bin rows> <un rows> <tokens> <deriv>` -/
def retrieveOp (ts : List String) : String :=
  match (do
    let (cats, ts) ← pList pCat ts
    let (bins, ts) ← pList pBinRow ts
    let (uns, ts) ← pList pUnRow ts
    let (toks, ts) ← pList pTok ts
    let (d, ts) ← pDeriv ts
    if ts.isEmpty then
      let T : Tables := {
        cats := fun i => cats[i]?,
        bin := fun x y => match bins.find? fun r => r.1.1 == x && r.1.2 == y with | some r => r.2 | none => [],
        un := fun x => match uns.find? fun r => r.1 == x with | some r => r.2 | none => [] }
      pure (retrieve T toks d)
    else none) with
  | some r => encExcept encTree r
  | none => "bad-op"


/-! ### `gluetable`: the callback side of `run` replayed on a recorded sequence of rule-function
calls (categories and result lists as the real functions returned them) -/

def pRes : P RuleRes := fun ts => do
  let (c, ts) ← pCat ts; let (h, ts) ← pNat ts; let (s, ts) ← pStr ts; let (y, ts) ← pStr ts
  pure (⟨c, s, y, h != 0⟩, ts)

inductive RCall where
  | bin (x y : Cat) (rs : List RuleRes)
  | un (x : Cat) (rs : List RuleRes)

def pRCall : P RCall
  | "b" :: ts => do
    let (x, ts) ← pCat ts; let (y, ts) ← pCat ts; let (rs, ts) ← pList pRes ts; pure (.bin x y rs, ts)
  | "u" :: ts => do
    let (x, ts) ← pCat ts; let (rs, ts) ← pList pRes ts; pure (.un x rs, ts)
  | _ => none

/-- the rule functions, as far as the recording knows them -/
def recorded (calls : List RCall) : GlueRun.CatGrammar :=
  { bin := fun cx cy => match calls.find? fun c => match c with | .bin x y _ => x == cx && y == cy | _ => false with
      | some (.bin _ _ rs) => rs | _ => [],
    un := fun cx => match calls.find? fun c => match c with | .un x _ => x == cx | _ => false with
      | some (.un _ rs) => rs | _ => [] }

def encIds (l : List Nat) : String := toString l.length ++ String.join (l.map fun i => " " ++ toString i)

/-- replay; every call's categories must already be in the table (they are: the search only asks
    about ids it holds) -/
def gluetableOp (ts : List String) : String :=
  match (do
    let (cats, ts) ← pList pCat ts
    let (roots, ts) ← pList pCat ts
    let (calls, ts) ← pList pRCall ts
    if ts.isEmpty then pure (cats, roots, calls) else none) with
  | none => "bad-op"
  | some (cats, roots, calls) =>
    let G := recorded calls
    let st0 := GlueRun.init cats roots
    let rootIds := (GlueRun.addRoots cats roots).2
    let rec go (st : GlueRun.GSt) (cs : List RCall) (acc : List String) : Option (GlueRun.GSt × List String) :=
      match cs with
      | [] => some (st, acc.reverse)
      | .bin x y _ :: rest =>
        if x ∈ st.cats ∧ y ∈ st.cats then
          let i := st.cats.idxOf x; let j := st.cats.idxOf y
          let st' := GlueRun.binCall G st i j
          go st' rest (("b " ++ toString i ++ " " ++ toString j ++ " " ++ encIds (((GlueRun.binRow st' i j).getD []).map (·.catId))) :: acc)
        else none
      | .un x _ :: rest =>
        if x ∈ st.cats then
          let i := st.cats.idxOf x
          let st' := GlueRun.unCall G st i
          go st' rest (("u " ++ toString i ++ " " ++ encIds (((GlueRun.unRow st' i).getD []).map (·.catId))) :: acc)
        else none
    match go st0 calls [] with
    | none => "err unknown-category"
    | some (st, rows) =>
      "ok " ++ toString st.cats.length ++ String.join (st.cats.map fun c => " " ++ encCat c) ++ " " ++ encIds rootIds ++
        " " ++ toString rows.length ++ String.join (rows.map fun r => " " ++ r)

end OpsMore
end Depccg
