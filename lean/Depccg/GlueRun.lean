/-
  Model of the callback side of `depccg._parsing.run` (depccg/parsing.pyx): the category table
  (`categories_` + `category_ids`, `maybe_add_and_get`), the binary / unary callbacks, and the rule
  cache that `parse_sentence` fills through `scaffold` (one row per id pair, written once).
  Category ids are positions in a list that only grows.
-/
import Depccg.GlueTree
import Depccg.En

namespace Depccg
namespace GlueRun
open GlueTree

/-- the two rule functions the caller passed to `run` -/
structure CatGrammar where
  bin : Cat → Cat → List RuleRes
  un : Cat → List RuleRes

structure GSt where
  cats : List Cat                                         -- `categories_`
  bin : List ((Nat × Nat) × List CacheEntry)              -- cache rows for (x, y)
  un : List (Nat × List CacheEntry)                       -- cache rows for (x, UINT_MAX)

/-- `maybe_add_and_get(cat)` -/
def addGet (cats : List Cat) (c : Cat) : List Cat × Nat :=
  if c ∈ cats then (cats, cats.idxOf c) else (cats ++ [c], cats.length)

/-- the loop of a callback + `scaffold`: every result, in order, gets its category id and becomes
    one cache entry -/
def addAll : List Cat → List RuleRes → List Cat × List CacheEntry
  | cats, [] => (cats, [])
  | cats, r :: rs =>
    let (cats1, i) := addGet cats r.cat
    let (cats2, es) := addAll cats1 rs
    (cats2, ⟨i, r.headLeft, r.opString, r.opSymbol⟩ :: es)

def binRow (st : GSt) (x y : Nat) : Option (List CacheEntry) :=
  (st.bin.find? fun r => r.1.1 == x && r.1.2 == y).map (·.2)

def unRow (st : GSt) (x : Nat) : Option (List CacheEntry) :=
  (st.un.find? fun r => r.1 == x).map (·.2)

/-- `apply_binary_rules(x, y)` of parsing.h: the row is computed on the first request only -/
def binCall (G : CatGrammar) (st : GSt) (x y : Nat) : GSt :=
  match binRow st x y with
  | some _ => st
  | none =>
    match st.cats[x]?, st.cats[y]? with
    | some cx, some cy =>
      let (cats', es) := addAll st.cats (G.bin cx cy)
      { st with cats := cats', bin := ((x, y), es) :: st.bin }
    | _, _ => st        -- (IndexError in the callback: ids come from the table, never happens)

def unCall (G : CatGrammar) (st : GSt) (x : Nat) : GSt :=
  match unRow st x with
  | some _ => st
  | none =>
    match st.cats[x]? with
    | some cx =>
      let (cats', es) := addAll st.cats (G.un cx)
      { st with cats := cats', un := (x, es) :: st.un }
    | none => st

/-- the root categories are numbered before any parsing -/
def addRoots : List Cat → List Cat → List Cat × List Nat
  | cats, [] => (cats, [])
  | cats, r :: rs =>
    let (cats1, i) := addGet cats r
    let (cats2, is) := addRoots cats1 rs
    (cats2, i :: is)

inductive Call where
  | bin (x y : Nat)
  | un (x : Nat)

def step (G : CatGrammar) (st : GSt) : Call → GSt
  | .bin x y => binCall G st x y
  | .un x => unCall G st x

/-- the state at the start of a `run` call: the caller's (duplicate-free) category list extended
    by the root categories, empty cache -/
def init (categories roots : List Cat) : GSt :=
  { cats := (addRoots categories roots).1, bin := [], un := [] }

/-- what the search and `retrieve_tree` see -/
def tablesOf (st : GSt) : Tables :=
  { cats := fun i => st.cats[i]?,
    bin := fun x y => (binRow st x y).getD [],
    un := fun x => (unRow st x).getD [] }

end GlueRun
end Depccg
