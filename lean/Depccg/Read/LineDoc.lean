/-
  An independent reader of the whole text that `to_string(nbest_trees, format)` / `print_` writes
  for the one-line-per-tree formats `auto`, `auto_extended`, `ptb`, `ja`
  (depccg/printer/__init__.py). depccg has no reader for it; this one is written from the layout
  alone:

    the text is a sequence of lines separated by newlines;
    a record is
      the line   `ID=<n>, log probability=<s>`   n a decimal number (the 1-based sentence number),
                                                 s an arbitrary text (returned verbatim)
      the NEXT line, whatever it contains: the tree line (returned verbatim);
    after the last record only empty lines may follow.

  Anything else is rejected: text before the first record, a header whose number is not a decimal
  number as `str(n)` writes it (read strictly, `conllNat`) or is not followed by
  `, log probability=`, a header without a tree line, an empty line between two records.

  Header and tree line alternate strictly: a tree line that itself looks like a header is still the
  tree line of the record before it.

  The reader is a single pass over the lines; the records are accumulated in reverse.
-/
import Depccg.Read.Conll

namespace Depccg
namespace Read
open Str

/-- one record of the output: sentence number, score text, tree line -/
abbrev LineRecord := Nat × Str × Str

def lineIdPrefix : Str := lit "ID="
def lineProbSep : Str := lit ", log probability="

/-- `s[len(p):]` when `s.startswith(p)` -/
def lineStripPrefix : Str → Str → Option Str
  | s, [] => some s
  | [], _ :: _ => none
  | x :: xs, p :: ps => if x = p then lineStripPrefix xs ps else none

/-- the header line `ID=<n>, log probability=<s>`: the number is the text up to the first comma -/
def decLineHeader (l : Str) : Option (Nat × Str) :=
  match lineStripPrefix l lineIdPrefix with
  | none => none
  | some r =>
    let digits := r.takeWhile (fun c => c != cComma)
    match conllNat digits with
    | none => none
    | some n =>
      match lineStripPrefix (r.drop digits.length) lineProbSep with
      | none => none
      | some s => some (n, s)

/-- the lines from a position where a record may start; `acc` are the finished records, last first -/
def lineDocRun : List Str → List LineRecord → Option (List LineRecord)
  | [], acc => some acc.reverse
  | h :: rest, acc =>
    if h.isEmpty then
      -- the end of the text: only empty lines may remain
      if rest.all (fun l => l.isEmpty) then some acc.reverse else none
    else
      match decLineHeader h with
      | none => none
      | some (n, s) =>
        match rest with
        | [] => none
        | t :: rest' => lineDocRun rest' ((n, s, t) :: acc)

/-- the records of a printed text: (sentence number, score text, tree line) in the order of the text -/
def decLineDoc (text : Str) : Option (List (Nat × Str × Str)) :=
  lineDocRun (splitOn 10 text) []

end Read
end Depccg
