/-
  Models of the file-level readers of depccg/tools/reader.py (`read_auto`, `read_ptb`) and
  depccg/tools/ja/reader.py (`read_ccgbank`): the loop over the lines of a file around the line
  readers of Depccg/Read/Text.lean.

  * `open(filename)` iterates over the text cut at `\n` (`fileLines`; the final newline of each
    line is dropped here, `strip` would remove it anyway).  `\r` is out of scope: the texts are
    assumed to contain none (Python's universal newlines would cut there too).
  * `str.strip()` removes leading and trailing characters for which `str.isspace` holds
    (`isPySpace`, the explicit list of code points).
  * the readers are generators; a generator that raises mid-way is modelled by the whole read
    being an error (the first error wins).
  * `read_auto` uses the local `name` before any assignment when a tree line comes before the
    first `ID` line: Python raises `UnboundLocalError`.  `Err` has no constructor for it; the
    model returns `.runtime` (`UnboundLocalError` is a subclass of `NameError`, not of
    `RuntimeError`: `.runtime` only stands for "an exception that is not one of the others").
    The line is parsed *before* `name` is evaluated, so an error of the line reader wins.
-/
import Depccg.Read.Text

namespace Depccg
open Str

namespace Read

/-- `str.isspace` on one code point (the characters `str.strip()` removes) -/
def isPySpace (c : Nat) : Bool :=
  c == 32 || (9 ≤ c && c ≤ 13) || (28 ≤ c && c ≤ 31) || c == 133 || c == 160 || c == 5760 ||
  (8192 ≤ c && c ≤ 8202) || c == 8232 || c == 8233 || c == 8239 || c == 8287 || c == 12288

/-- `str.lstrip()` -/
def lstrip (s : Str) : Str := s.dropWhile isPySpace

/-- `str.rstrip()` -/
def rstrip (s : Str) : Str := (s.reverse.dropWhile isPySpace).reverse

/-- `str.strip()` -/
def strip (s : Str) : Str := rstrip (lstrip s)

/-- the lines `for line in open(filename)` iterates over, each without its final newline: the
    text cut at every `\n`; a text that ends in a newline (and the empty text) has no extra
    empty last line -/
def fileLines (text : Str) : List Str :=
  let ls := splitOn 10 text
  if ls.getLast? == some [] then ls.dropLast else ls

/-- `ReaderResult(name, tokens, tree)` -/
abbrev ReaderResult := Str × List Token × Tree

/-- (instance search does not find this one within its default size limit) -/
instance instDecidableEqReaderResult : DecidableEq ReaderResult :=
  @instDecidableEqProd Str (List Token × Tree) _ _

/-- the loop of `read_auto`; `name` is `none` while the local variable is unbound -/
def readAutoLoop (lang : Lang) : List Str → Option Str → Except Err (List ReaderResult)
  | [], _ => .ok []
  | l :: rest, name =>
    let line := strip l
    if line.isEmpty then readAutoLoop lang rest name
    else if startsWith line (lit "ID") then readAutoLoop lang rest (some line)
    else
      match readAutoLine lang line with
      | .error e => .error e
      | .ok (tree, toks) =>
        match name with
        | none => .error .runtime                       -- UnboundLocalError, see the header
        | some n =>
          match readAutoLoop lang rest name with
          | .error e => .error e
          | .ok rs => .ok ((n, toks, tree) :: rs)

/-- `read_auto(filename)` on the text of the file -/
def readAutoFile (lang : Lang) (text : Str) : Except Err (List ReaderResult) :=
  readAutoLoop lang (fileLines text) none

/-- the loop of `read_ptb`; `i` is the index of the line (`enumerate`), `name0` the last `ID`
    line (`None` at the start).  `name0 or f'ID={i}'`: an `ID` line is never empty, so `or`
    takes the second operand exactly when `name0` is `None` -/
def readPtbLoop (lang : Lang) : List Str → Nat → Option Str → Except Err (List ReaderResult)
  | [], _, _ => .ok []
  | l :: rest, i, name0 =>
    let line := strip l
    if line.isEmpty then readPtbLoop lang rest (i + 1) name0
    else if startsWith line (lit "ID") then readPtbLoop lang rest (i + 1) (some line)
    else
      match parsePtb lang line with
      | .error e => .error e
      | .ok (tree, toks) =>
        let name := match name0 with
          | some n => n
          | none => lit "ID=" ++ Str.ofNat i
        match readPtbLoop lang rest (i + 1) name0 with
        | .error e => .error e
        | .ok rs => .ok ((name, toks, tree) :: rs)

/-- `read_ptb(filename)` on the text of the file -/
def readPtbFile (lang : Lang) (text : Str) : Except Err (List ReaderResult) :=
  readPtbLoop lang (fileLines text) 0 none

/-- the loop of `read_ccgbank` (Japanese bank): every non-empty line is a tree line, named by
    its line index -/
def readJaLoop : List Str → Nat → Except Err (List ReaderResult)
  | [], _ => .ok []
  | l :: rest, i =>
    let line := strip l
    if line.isEmpty then readJaLoop rest (i + 1)
    else
      match readJaLine line with
      | .error e => .error e
      | .ok (tree, toks) =>
        match readJaLoop rest (i + 1) with
        | .error e => .error e
        | .ok rs => .ok ((Str.ofNat i, toks, tree) :: rs)

/-- `read_ccgbank(filepath)` on the text of the file -/
def readJaFile (text : Str) : Except Err (List ReaderResult) :=
  readJaLoop (fileLines text) 0

end Read
end Depccg
