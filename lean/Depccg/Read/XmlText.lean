/-
  An independent reader of the two XML outputs (`--format xml`, `--format jigg_xml`), written from
  the XML grammar for documents made of elements and attributes only:

    document := ws element ws
    element  := `<` name attribute* ws `/>`
              | `<` name attribute* ws `>` (ws element)* ws `</` name ws `>`     (the same name)
    attribute := ws+ name ws `=` ws quote value quote          (quote is `"` or `'`, the same twice)
    ws       := blank, TAB, newline, carriage return
    name     := a maximal non-empty run of characters other than ws and `= < > / " ' &`
    value    := any characters but the quote and `<`; `&` starts a reference:
                `&amp; &lt; &gt; &quot; &apos;`, `&#N;` (decimal), `&#xH;` (hexadecimal, digits of
                either case) for a code point that is an XML character; any other `&…` is
                malformed; a literal TAB / newline / carriage return is normalised to a blank
                (attribute-value normalisation).

  Text content other than white space, a mismatched end tag, an unterminated element or value,
  anything after the root element but white space: `none`.  Comments, processing instructions,
  CDATA, a DOCTYPE are not in this subset (they give `none`).  Attributes are returned in document
  order; a repeated attribute name is not checked (the model's attribute lists may repeat a name,
  lxml's `set` never does).

  `readXmlText` / `readJiggText` then take the element tree apart the way a consumer of the file
  would: `candc > ccg[sentence, id] > (lf | rule)`, and
  `root > document > sentences > sentence > (tokens > token*, ccg > span*)`.

  Mathlib-free; structural / fuel recursion only (the fuel is the length of the text still to be
  read), so everything evaluates in the kernel and compiles natively.
-/
import Depccg.Print.XmlText
import Depccg.Read.Conll

namespace Depccg
namespace Read
open Str Xml

/-! ### characters -/

/-- XML white space -/
def xmlWs (c : Nat) : Bool := c == 32 || c == 9 || c == 10 || c == 13

def xmlSkipWs : Str → Str
  | [] => []
  | c :: cs => if xmlWs c then xmlSkipWs cs else c :: cs

/-- a character of a name: anything but white space and `= < > / " ' &` -/
def xmlNameChar (c : Nat) : Bool :=
  !(xmlWs c) && c != 61 && c != 60 && c != 62 && c != 47 && c != 34 && c != 39 && c != 38

/-- a name (not empty) and the text after it -/
def xmlReadName (s : Str) : Option (Str × Str) :=
  match s.takeWhile xmlNameChar with
  | [] => none
  | c :: n => some (c :: n, s.dropWhile xmlNameChar)

/-- the text up to the first `q` and the text after that `q` -/
def xmlReadUntil (q : Nat) : Str → Option (Str × Str)
  | [] => none
  | c :: cs =>
    if c = q then some ([], cs)
    else
      match xmlReadUntil q cs with
      | some (v, r) => some (c :: v, r)
      | none => none

/-! ### references -/

/-- the value of a hex digit of either case -/
def xmlHexVal (c : Nat) : Option Nat :=
  if 48 ≤ c ∧ c ≤ 57 then some (c - 48)
  else if 97 ≤ c ∧ c ≤ 102 then some (c - 87)
  else if 65 ≤ c ∧ c ≤ 70 then some (c - 55)
  else none

/-- hex digits, most significant first, onto an accumulator -/
def xmlHexDigits : Nat → Str → Option Nat
  | acc, [] => some acc
  | acc, c :: cs =>
    match xmlHexVal c with
    | some d => xmlHexDigits (acc * 16 + d) cs
    | none => none

/-- the code points a character reference may denote (XML 1.0 `Char`) -/
def xmlCharRefOk (n : Nat) : Bool :=
  n == 9 || n == 10 || n == 13 || (decide (32 ≤ n) && decide (n ≤ 55295)) ||
    (decide (57344 ≤ n) && decide (n ≤ 65533)) || (decide (65536 ≤ n) && decide (n ≤ 1114111))

def xmlCheckRef : Option Nat → Option Nat
  | some n => if xmlCharRefOk n then some n else none
  | none => none

/-- what stands between `&` and `;` -/
def xmlRef (name : Str) : Option Nat :=
  if name = [97, 109, 112] then some 38               -- amp
  else if name = [108, 116] then some 60              -- lt
  else if name = [103, 116] then some 62              -- gt
  else if name = [113, 117, 111, 116] then some 34    -- quot
  else if name = [97, 112, 111, 115] then some 39     -- apos
  else
    match name with
    | h :: x :: t =>
      if h = 35 then
        if x = 120 then
          match t with
          | [] => none
          | _ :: _ => xmlCheckRef (xmlHexDigits 0 t)
        else xmlCheckRef (conllDigits 0 (x :: t))
      else none
    | _ => none

/-- an attribute value as the parser hands it to the application -/
def unescAux : Nat → Str → Option Str
  | 0, _ => none
  | _ + 1, [] => some []
  | fuel + 1, c :: cs =>
    if c = 38 then
      match xmlReadUntil 59 cs with
      | none => none
      | some (name, rest) =>
        match xmlRef name, unescAux fuel rest with
        | some x, some t => some (x :: t)
        | _, _ => none
    else if c = 60 then none
    else
      match unescAux fuel cs with
      | some t => some ((if c = 9 ∨ c = 10 ∨ c = 13 then 32 else c) :: t)
      | none => none

def unescAttr (s : Str) : Option Str := unescAux (s.length + 1) s

/-! ### elements -/

def xmlStartsWs : Str → Bool
  | [] => false
  | c :: _ => xmlWs c

/-- a quoted value (the text starts with the quote), decoded, and the text after it -/
def parseAttrValue (s : Str) : Option (Str × Str) :=
  match s with
  | [] => none
  | q :: r =>
    if q = 34 ∨ q = 39 then
      match xmlReadUntil q r with
      | none => none
      | some (raw, r1) =>
        match unescAttr raw with
        | some v => some (v, r1)
        | none => none
    else none

/-- `name = "value"` (the text starts with the name) and the text after it -/
def parseAttr (s : Str) : Option ((Str × Str) × Str) :=
  match xmlReadName s with
  | none => none
  | some (k, r1) =>
    match xmlSkipWs r1 with
    | [] => none
    | e :: r2 =>
      if e = 61 then
        match parseAttrValue (xmlSkipWs r2) with
        | some (v, r3) => some ((k, v), r3)
        | none => none
      else none

/-- one round of `parseAttrs`; `more` reads the attributes after the first one -/
def parseAttrsStep (more : Str → Option (Attrs × Bool × Str)) (s : Str) : Option (Attrs × Bool × Str) :=
  match xmlSkipWs s with
  | [] => none
  | c :: r =>
    if c = 62 then some ([], false, r)
    else if c = 47 then
      match r with
      | [] => none
      | d :: r1 => if d = 62 then some ([], true, r1) else none
    else if xmlStartsWs s then
      match parseAttr (c :: r) with
      | none => none
      | some (kv, r1) =>
        match more r1 with
        | some (as, sc, r2) => some (kv :: as, sc, r2)
        | none => none
    else none

/-- the attributes of a start tag, after the name: the list, whether the tag ends with `/>`,
    and the text after the `>`; an attribute must be preceded by white space -/
def parseAttrs : Nat → Str → Option (Attrs × Bool × Str)
  | 0, _ => none
  | fuel + 1, s => parseAttrsStep (parseAttrs fuel) s

/-- the end tag after `</` : the name must be `tag` -/
def parseEndTag (tag : Str) (s : Str) : Option Str :=
  match xmlReadName s with
  | none => none
  | some (t, r) =>
    if t = tag then
      match xmlSkipWs r with
      | [] => none
      | g :: r1 => if g = 62 then some r1 else none
    else none

mutual
/-- one element; the text starts with its `<` -/
def parseElem : Nat → Str → Option (Elem × Str)
  | 0, _ => none
  | fuel + 1, s =>
    match s with
    | [] => none
    | c :: r =>
      if c = 60 then
        match xmlReadName r with
        | none => none
        | some (tag, r1) =>
          match parseAttrs (r1.length + 1) r1 with
          | none => none
          | some (attrs, true, r2) => some (.mk tag attrs [], r2)
          | some (attrs, false, r2) =>
            match parseKids fuel r2 with
            | none => none
            | some (kids, r3) =>
              match parseEndTag tag r3 with
              | none => none
              | some r4 => some (.mk tag attrs kids, r4)
      else none

/-- the children of an element up to and including the `</` of its end tag -/
def parseKids : Nat → Str → Option (List Elem × Str)
  | 0, _ => none
  | fuel + 1, s =>
    match xmlSkipWs s with
    | c :: d :: r =>
      if c = 60 then
        if d = 47 then some ([], r)
        else
          match parseElem fuel (c :: d :: r) with
          | none => none
          | some (k, r1) =>
            match parseKids fuel r1 with
            | none => none
            | some (ks, r2) => some (k :: ks, r2)
      else none
    | _ => none
end

/-- the whole text is one element (white space may stand before and after it) -/
def parseXml (s : Str) : Option Elem :=
  match parseElem (s.length + 1) (xmlSkipWs s) with
  | some (e, rest) => if (xmlSkipWs rest).isEmpty then some e else none
  | none => none

/-! ### C&C XML: from the elements to the `<ccg>` records -/

mutual
/-- `<lf …/>`, `<rule …>` with one or two children -/
def xtreeOfElem : Elem → Option XTree
  | .mk tag attrs kids =>
    match xtreesOfElems kids with
    | some [] => if tag = lit "lf" then some (.lf attrs) else none
    | some [x] => if tag = lit "rule" then some (.rule1 attrs x) else none
    | some [x, y] => if tag = lit "rule" then some (.rule2 attrs x y) else none
    | _ => none
def xtreesOfElems : List Elem → Option (List XTree)
  | [] => some []
  | k :: ks =>
    match xtreeOfElem k, xtreesOfElems ks with
    | some x, some xs => some (x :: xs)
    | _, _ => none
end

/-- `<ccg sentence="…" id="…">` with exactly one child -/
def ccgOfElem : Elem → Option CcgElem
  | .mk tag [(k1, v1), (k2, v2)] [kid] =>
    if tag = lit "ccg" ∧ k1 = lit "sentence" ∧ k2 = lit "id" then
      match conllNat v1, conllNat v2, xtreeOfElem kid with
      | some s, some i, some t => some ⟨s, i, t⟩
      | _, _, _ => none
    else none
  | _ => none

def ccgsOfElems : List Elem → Option (List CcgElem)
  | [] => some []
  | k :: ks =>
    match ccgOfElem k, ccgsOfElems ks with
    | some c, some cs => some (c :: cs)
    | _, _ => none

/-- what a `--format xml` output says: the `<ccg>` records in document order -/
def readXmlText (s : Str) : Option (List CcgElem) :=
  match parseXml s with
  | some (.mk tag [] kids) => if tag = lit "candc" then ccgsOfElems kids else none
  | _ => none

/-! ### Jigg XML: from the elements to the sentences -/

/-- the attribute lists of a row of childless elements `tag` -/
def attrsOfLeaves (tag : Str) : List Elem → Option (List Attrs)
  | [] => some []
  | .mk t a [] :: rest =>
    if t = tag then
      match attrsOfLeaves tag rest with
      | some more => some (a :: more)
      | none => none
    else none
  | _ :: _ => none

/-- `<ccg …>` with its `<span …/>` children -/
def jccgOfElem : Elem → Option JCcg
  | .mk t a kids =>
    if t = lit "ccg" then
      match attrsOfLeaves (lit "span") kids with
      | some sp => some { attrs := a, spans := sp }
      | none => none
    else none

def jccgsOfElems : List Elem → Option (List JCcg)
  | [] => some []
  | k :: ks =>
    match jccgOfElem k, jccgsOfElems ks with
    | some c, some cs => some (c :: cs)
    | _, _ => none

/-- `<sentence>` : `<tokens>` with its `<token …/>` children, then the `<ccg>` elements -/
def jsentenceOfElem : Elem → Option JSentence
  | .mk t [] (.mk t2 [] toks :: ccgs) =>
    if t = lit "sentence" ∧ t2 = lit "tokens" then
      match attrsOfLeaves (lit "token") toks, jccgsOfElems ccgs with
      | some tk, some cs => some { tokens := tk, ccgs := cs }
      | _, _ => none
    else none
  | _ => none

def jsentencesOfElems : List Elem → Option (List JSentence)
  | [] => some []
  | k :: ks =>
    match jsentenceOfElem k, jsentencesOfElems ks with
    | some c, some cs => some (c :: cs)
    | _, _ => none

/-- what a `--format jigg_xml` output says: the sentences in document order -/
def readJiggText (s : Str) : Option (List JSentence) :=
  match parseXml s with
  | some (.mk r [] [.mk d [] [.mk ss [] sents]]) =>
    if r = lit "root" ∧ d = lit "document" ∧ ss = lit "sentences" then jsentencesOfElems sents else none
  | _ => none

end Read
end Depccg
