/-
  An independent reader of the whole text that `to_string(nbest_trees, format)` / `print_` writes
  for a format whose trees are printed as several lines — `deriv` (depccg/printer/__init__.py).
  depccg has no reader for it; this one is written from the layout alone:

    the text is a sequence of lines separated by newlines (the pieces between the newlines; the
    piece after the last newline counts as a line, too);
    a record is
      the line   `ID=<n>, log probability=<s>`   n a decimal number (the 1-based sentence number),
                                                 s an arbitrary text (returned verbatim);
                                                 read by `Read.decLineHeader`
      a block    one or more non-empty lines, whatever they contain; returned as one text, every
                 line followed by its newline — exactly what the formatter of the tree produced
      an empty line, which closes the block;
    further empty lines between the records and at the end are skipped.

  Anything else is rejected: text before the first record, a header that `decLineHeader` does not
  read, a header without a block (followed at once by an empty line or by the end of the text), a
  block that is not closed by an empty line when the text ends.

  Inside a block nothing is interpreted: a line that looks like a header is a line of the block.

  The reader is a single pass over the lines with two states (between records / inside the block
  of a record); the records and the lines of the current block are accumulated in reverse.
-/
import Depccg.Read.LineDoc

namespace Depccg
namespace Read
open Str

/-- one record of the output: sentence number, score text, block -/
abbrev BlockRecord := Nat × Str × Str

inductive BlockDocSt where
  /-- between two records (or before the first) -/
  | between
  /-- after the header of record `n`, `score`: the lines of the block read so far, last first -/
  | block (n : Nat) (score : Str) (linesRev : List Str)
  deriving Repr

/-- the text of a block: every line followed by its newline -/
def blockText (lines : List Str) : Str := (lines.map (· ++ [10])).flatten

/-- one line; `acc` are the finished records, last first -/
def blockDocStep (st : BlockDocSt) (acc : List BlockRecord) (l : Str) :
    Option (BlockDocSt × List BlockRecord) :=
  match st with
  | .between =>
    if l.isEmpty then some (.between, acc)
    else
      match decLineHeader l with
      | some (n, s) => some (.block n s [], acc)
      | none => none
  | .block n s rows =>
    if l.isEmpty then
      -- the block ends here; it must have a line
      match rows with
      | [] => none
      | _ :: _ => some (.between, (n, s, blockText rows.reverse) :: acc)
    else some (.block n s (l :: rows), acc)

/-- the end of the text: a block must have been closed -/
def blockDocFinish (st : BlockDocSt) (acc : List BlockRecord) : Option (List BlockRecord) :=
  match st with
  | .between => some acc.reverse
  | .block _ _ _ => none

def blockDocRun : BlockDocSt → List BlockRecord → List Str → Option (List BlockRecord)
  | st, acc, [] => blockDocFinish st acc
  | st, acc, l :: ls =>
    match blockDocStep st acc l with
    | none => none
    | some (st', acc') => blockDocRun st' acc' ls

/-- the records of a printed text: (sentence number, score text, block) in the order of the text -/
def decBlockDoc (text : Str) : Option (List (Nat × Str × Str)) :=
  blockDocRun .between [] (splitOn 10 text)

end Read
end Depccg
