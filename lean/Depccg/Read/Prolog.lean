/-
  An independent reader of the two Prolog formats (depccg/printer/prolog.py, `to_prolog_en` and
  `to_prolog_ja`). depccg has no reader for them; this one is written from the layout alone:

    :- op(601, xfx, (/)).          directive lines (each starts with `:-`) are skipped
    ...
    <blank line>
    ccg(<n>,                       one clause per derivation, <n> the sentence number
     <term>).

  and a term is

    <functor>(<category>[, <category>]*[,<newline> <term>]*)      a rule node
    t(<category>[, '<quoted atom>']*)                             a leaf

  * blanks and newlines before a term are skipped; the functor is read up to the `(`;
  * a category argument is read up to the next `,` that is not inside parentheses (the depth of
    `(`/`)` is tracked; a `)` that closes nothing is an error);
  * after a `,` the blanks are skipped; if a newline follows, the argument is a sub-term,
    otherwise it is one more category on the same line (the extra category arguments of the
    English `lx(cat, childcat,` / `conj(cat, leftcat,` ...);
  * inside `t( ... )` every further argument is a quoted atom `'...'`, in which `\'` stands for a
    quote and the first other quote closes the atom;
  * a term ends with `)`; a clause ends with `).`.

  The same term reader serves both formats (they differ in functors, in the number of category
  arguments and in where the newlines are put, all of which the reader takes from the text).
  Mathlib-free, fuel recursion only: everything evaluates in the kernel and compiles natively.
-/
import Depccg.Str

namespace Depccg
namespace Read
open Str

/-- what the Prolog formats carry of a derivation: at a leaf the category (as the format spells
    it) and the quoted atoms, unescaped; at a rule node the functor, the category, the extra
    category arguments, and the sub-terms -/
inductive PView where
  | leaf (cat : Str) (fields : List Str)
  | node (functor cat : Str) (extra : List Str) (kids : List PView)
  deriving Repr

/-! equality of views is decidable (`deriving DecidableEq` does not handle the list of sub-terms) -/
mutual
def PView.decEq : (a b : PView) → Decidable (a = b)
  | .leaf c f, .leaf c' f' =>
    if h : c = c' ∧ f = f' then isTrue (by rw [h.1, h.2])
    else isFalse (by intro e; cases e; exact h ⟨rfl, rfl⟩)
  | .node g c e ks, .node g' c' e' ks' =>
    if h : g = g' ∧ c = c' ∧ e = e' then
      match PView.decEqList ks ks' with
      | isTrue hk => isTrue (by rw [h.1, h.2.1, h.2.2, hk])
      | isFalse hk => isFalse (by intro e; cases e; exact hk rfl)
    else isFalse (by intro e; cases e; exact h ⟨rfl, rfl, rfl⟩)
  | .leaf .., .node .. => isFalse (by intro e; cases e)
  | .node .., .leaf .. => isFalse (by intro e; cases e)
def PView.decEqList : (as bs : List PView) → Decidable (as = bs)
  | [], [] => isTrue rfl
  | a :: as, b :: bs =>
    match PView.decEq a b with
    | isTrue h1 =>
      match PView.decEqList as bs with
      | isTrue h2 => isTrue (by rw [h1, h2])
      | isFalse h2 => isFalse (by intro e; cases e; exact h2 rfl)
    | isFalse h1 => isFalse (by intro e; cases e; exact h1 rfl)
  | [], _ :: _ => isFalse (by intro e; cases e)
  | _ :: _, [] => isFalse (by intro e; cases e)
end

instance : DecidableEq PView := PView.decEq

def isWs (c : Nat) : Bool := c == 32 || c == 10

/-- skip blanks and newlines -/
def skipWs : Str → Str
  | [] => []
  | c :: cs => if c = 32 ∨ c = 10 then skipWs cs else c :: cs

/-- skip blanks -/
def skipSp : Str → Str
  | [] => []
  | c :: cs => if c = 32 then skipSp cs else c :: cs

/-- a functor name: everything up to the opening parenthesis (which must be there) -/
def readName : Str → Str → Option (Str × Str)
  | _, [] => none
  | acc, c :: cs => if c = 40 then some (acc.reverse, cs) else readName (c :: acc) cs

/-- a category argument: up to the `,` at parenthesis depth 0 (not consumed) -/
def readArg : Nat → Str → Str → Option (Str × Str)
  | _, _, [] => none
  | depth, acc, c :: cs =>
    if c = 44 ∧ depth = 0 then some (acc.reverse, c :: cs)
    else if c = 40 then readArg (depth + 1) (c :: acc) cs
    else if c = 41 then
      match depth with
      | 0 => none
      | d + 1 => readArg d (c :: acc) cs
    else readArg depth (c :: acc) cs

/-- the rest of a quoted atom, after the opening quote: `\'` is a quote, the first other quote
    closes the atom -/
def readQuoted : Bool → Str → Str → Option (Str × Str)
  | _, _, [] => none
  | pending, acc, c :: cs =>
    if pending then                       -- the previous character was a backslash, not yet stored
      if c = 39 then readQuoted false (39 :: acc) cs
      else if c = 92 then readQuoted true (92 :: acc) cs
      else readQuoted false (c :: 92 :: acc) cs
    else if c = 39 then some (acc.reverse, cs)
    else if c = 92 then readQuoted true acc cs
    else readQuoted false (c :: acc) cs

/-- where the term reader is: before a term; inside `t(cat` ; inside `functor(cat` -/
inductive PMode where
  | term
  | fields (cat : Str) (acc : List Str)
  | args (functor cat : Str) (extra : List Str) (kids : List PView)

/-- the term reader; one unit of fuel per argument read -/
def readTerm : Nat → PMode → Str → Option (PView × Str)
  | 0, _, _ => none
  | fuel + 1, .term, s =>
    match readName [] (skipWs s) with
    | none => none
    | some (name, s1) =>
      match readArg 0 [] s1 with
      | none => none
      | some (cat, s2) =>
        if name = [116] then readTerm fuel (.fields cat []) s2          -- `t(` : a leaf
        else readTerm fuel (.args name cat [] []) s2
  | fuel + 1, .fields cat acc, s =>
    match s with
    | [] => none
    | c :: rest =>
      if c = 41 then some (.leaf cat acc.reverse, rest)
      else if c = 44 then
        match skipSp rest with
        | q :: r =>
          if q = 39 then
            match readQuoted false [] r with
            | some (v, r') => readTerm fuel (.fields cat (v :: acc)) r'
            | none => none
          else none
        | [] => none
      else none
  | fuel + 1, .args f cat ex kids, s =>
    match s with
    | [] => none
    | c :: rest =>
      if c = 41 then some (.node f cat ex.reverse kids.reverse, rest)
      else if c = 44 then
        match skipSp rest with
        | [] => none
        | d :: r =>
          if d = 10 then
            match readTerm fuel .term r with
            | some (k, r') => readTerm fuel (.args f cat ex (k :: kids)) r'
            | none => none
          else
            match readArg 0 [] (d :: r) with
            | some (c2, r') => readTerm fuel (.args f cat (c2 :: ex) kids) r'
            | none => none
      else none

def isDigit (c : Nat) : Bool := 48 ≤ c && c ≤ 57

/-- a decimal number (at least one digit) -/
def readNat (s : Str) : Option (Nat × Str) :=
  let ds := s.takeWhile isDigit
  if ds.isEmpty then none
  else some (ds.foldl (fun a c => 10 * a + (c - 48)) 0, s.dropWhile isDigit)

/-- the clauses of an output: directive lines skipped, every other clause is `ccg(<n>, <term>).` -/
def readClauses : Nat → Str → Option (List (Nat × PView))
  | 0, _ => none
  | fuel + 1, s =>
    match skipWs s with
    | [] => some []
    | 58 :: 45 :: rest => readClauses fuel (rest.dropWhile (· != 10))           -- `:-` ... end of line
    | 99 :: 99 :: 103 :: 40 :: rest =>                                          -- `ccg(`
      match readNat rest with
      | some (n, c :: s1) =>
        if c = 44 then
          match readTerm s1.length .term s1 with
          | some (v, c1 :: c2 :: s2) =>
            if c1 = 41 ∧ c2 = 46 then
              match readClauses fuel s2 with
              | some more => some ((n, v) :: more)
              | none => none
            else none
          | _ => none
        else none
      | _ => none
    | _ => none

/-- the reader of a whole Prolog output -/
def decProlog (text : Str) : Option (List (Nat × PView)) := readClauses (text.length + 1) text

/-- `to_prolog_en` output -/
def decPrologEn (text : Str) : Option (List (Nat × PView)) := decProlog text

/-- `to_prolog_ja` output -/
def decPrologJa (text : Str) : Option (List (Nat × PView)) := decProlog text

end Read
end Depccg
