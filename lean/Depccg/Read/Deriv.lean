/-
  An independent reader of the `deriv` format (the ASCII-art derivation of depccg/printer/deriv.py).
  depccg has no reader for this format; this one is written from the layout alone:

    line 1   the leaf categories, each centred in its column
    line 2   the words, each centred in the same column (column width = 2 + max(len word, len cat))
    then, for every internal node in post-order, two lines:
             <lw blanks> <one '-' per column character of the node's span> <rule symbol>
             <blanks> <category>

  The reader recovers the columns from the two header lines and rebuilds the tree from a forest:
  the list, in column order, of (column interval, subtree) pairs of the constituents built so far
  (at first one leaf per column). A rule line with `lw` blanks and `wd` dashes rewrites the forest
  at the constituent that starts in column `lw`: if that constituent ends in column `lw + wd` it
  becomes the child of a unary node; otherwise it and its right neighbour (which must start where
  it ends, and end in column `lw + wd`) become the children of a binary node. At the end exactly
  one constituent must remain.

  (The constituents cannot be kept on a stack with all the leaves pushed first: in `(a => X) b`
  the rule line over `a` is read while `b` is already there.)
-/
import Depccg.Str

namespace Depccg
namespace Read
open Str

/-- what the format carries: words, leaf and node categories, shape, rule symbols -/
inductive DView where
  | leaf (cat word : Str)
  | un (cat sym : Str) (kid : DView)
  | bin (cat sym : Str) (l r : DView)
  deriving DecidableEq, Repr

/-- blank-separated non-empty fields -/
def fields (s : Str) : List Str := (splitOn cSpace s).filter (fun f => !f.isEmpty)

def countWhile (c : Nat) : Str → Nat
  | [] => 0
  | x :: xs => if x = c then countWhile c xs + 1 else 0

/-- the initial forest: one leaf per column, left to right -/
def leafForest : Nat → List Str → List Str → Option (List ((Nat × Nat) × DView))
  | _, [], [] => some []
  | off, c :: cs, w :: ws =>
    let wd := 2 + max w.length c.length
    match leafForest (off + wd) cs ws with
    | some rest => some (((off, off + wd), DView.leaf c w) :: rest)
    | none => none
  | _, _, _ => none

/-- rewrite the forest at the constituent that starts in column `lw` -/
def rewriteAt (lw wd : Nat) (cat sym : Str) :
    List ((Nat × Nat) × DView) → Option (List ((Nat × Nat) × DView))
  | [] => none
  | ((s1, e1), t1) :: more =>
    if s1 = lw then
      if e1 = lw + wd then some (((lw, lw + wd), DView.un cat sym t1) :: more)
      else
        match more with
        | ((s2, e2), t2) :: more' =>
          if s2 = e1 ∧ e2 = lw + wd then some (((lw, lw + wd), DView.bin cat sym t1 t2) :: more') else none
        | [] => none
    else
      match rewriteAt lw wd cat sym more with
      | some more' => some (((s1, e1), t1) :: more')
      | none => none

/-- one rule line + category line -/
def reduce (forest : List ((Nat × Nat) × DView)) (rule catLine : Str) :
    Option (List ((Nat × Nat) × DView)) :=
  let lw := countWhile cSpace rule
  let rest := rule.drop lw
  let wd := countWhile 45 rest
  let sym := rest.drop wd
  match fields catLine with
  | [cat] => rewriteAt lw wd cat sym forest
  | _ => none

def reduceAll : List ((Nat × Nat) × DView) → List Str → Option (List ((Nat × Nat) × DView))
  | forest, [] => some forest
  | forest, [l] => if l.isEmpty then some forest else none        -- the empty field after the last newline
  | forest, rule :: catLine :: rest =>
    match reduce forest rule catLine with
    | some forest' => reduceAll forest' rest
    | none => none

def decDeriv (s : Str) : Option DView :=
  match splitOn 10 s with
  | catsLine :: wordsLine :: rest =>
    match leafForest 0 (fields catsLine) (fields wordsLine) with
    | some forest =>
      match reduceAll forest rest with
      | some [(_, t)] => some t
      | _ => none
    | none => none
  | _ => none

end Read
end Depccg
