/-
  An independent reader of the whole text that `to_string(nbest_trees, format='conll')` /
  `print_` writes (depccg/printer/__init__.py). depccg has no reader for it; this one is written
  from the layout alone:

    the text is a sequence of lines separated by newlines;
    a record is
      the line   `# ID=<n>`                 n a decimal number (the 1-based sentence number)
      the line   `# log probability=<s>`    s an arbitrary text (returned verbatim)
      a table    one or more non-empty lines, none of which begins with `# ID=`: the rows of
                 `Read.decConllRow` (ten TAB-separated columns, Depccg/Read/Conll.lean)
    a table ends at an empty line, at the `# ID=` line of the next record or at the end of the text;
    empty lines between the records and at the end are skipped.

  Anything else is rejected: text before the first record, a `# ID=` line whose rest is not a number
  (read strictly, `conllNat`), a record without its `# log probability=` line or without a row, a
  line of a table that is not a row (in particular any other `#` line).

  The reader is a single pass over the lines with three states (between records / after the
  `# ID=` line / inside a table); the records and the rows of the current table are accumulated in
  reverse.
-/
import Depccg.Read.Conll

namespace Depccg
namespace Read
open Str

/-- one record of the output: sentence number, score text, rows of the table -/
abbrev ConllRecord := Nat × Str × List ConllRow

def conllIdPrefix : Str := lit "# ID="
def conllProbPrefix : Str := lit "# log probability="

/-- `s[len(p):]` when `s.startswith(p)` -/
def stripPrefix : Str → Str → Option Str
  | s, [] => some s
  | [], _ :: _ => none
  | x :: xs, p :: ps => if x = p then stripPrefix xs ps else none

inductive ConllDocSt where
  /-- between two records (or before the first) -/
  | between
  /-- the line `# ID=n` was read -/
  | afterId (n : Nat)
  /-- inside the table of record `n`, `score`: the rows read so far, last first -/
  | table (n : Nat) (score : Str) (rowsRev : List ConllRow)
  deriving Repr

/-- a line where a record may start: empty lines are skipped, otherwise it must be `# ID=<n>` -/
def conllDocStart (l : Str) (acc : List ConllRecord) : Option (ConllDocSt × List ConllRecord) :=
  if l.isEmpty then some (.between, acc)
  else
    match stripPrefix l conllIdPrefix with
    | none => none
    | some r =>
      match conllNat r with
      | some n => some (.afterId n, acc)
      | none => none

/-- one line; `acc` are the finished records, last first -/
def conllDocStep (st : ConllDocSt) (acc : List ConllRecord) (l : Str) : Option (ConllDocSt × List ConllRecord) :=
  match st with
  | .between => conllDocStart l acc
  | .afterId n =>
    match stripPrefix l conllProbPrefix with
    | some s => some (.table n s [], acc)
    | none => none
  | .table n s rows =>
    if l.isEmpty || (stripPrefix l conllIdPrefix).isSome then
      -- the table ends here; it must have a row
      match rows with
      | [] => none
      | _ :: _ => conllDocStart l ((n, s, rows.reverse) :: acc)
    else
      match decConllRow l with
      | some r => some (.table n s (r :: rows), acc)
      | none => none

/-- the end of the text -/
def conllDocFinish (st : ConllDocSt) (acc : List ConllRecord) : Option (List ConllRecord) :=
  match st with
  | .between => some acc.reverse
  | .afterId _ => none
  | .table _ _ [] => none
  | .table n s (r :: rows) => some ((n, s, (r :: rows).reverse) :: acc).reverse

def conllDocRun : ConllDocSt → List ConllRecord → List Str → Option (List ConllRecord)
  | st, acc, [] => conllDocFinish st acc
  | st, acc, l :: ls =>
    match conllDocStep st acc l with
    | none => none
    | some (st', acc') => conllDocRun st' acc' ls

/-- the records of a printed text: (sentence number, score text, rows) in the order of the text -/
def decConllDoc (text : Str) : Option (List (Nat × Str × List ConllRow)) :=
  conllDocRun .between [] (splitOn 10 text)

end Read
end Depccg
