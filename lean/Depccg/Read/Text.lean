/-
  Models of the line readers of depccg/tools/reader.py (`read_auto` + `_AutoLineReader`,
  `_parse_ptb`) and depccg/tools/ja/reader.py (`_JaCCGLineReader`).
  Cursor readers are state machines over (line, index) exactly as in the code; recursion is on
  explicit fuel (the line length bounds the number of nodes).
-/
import Depccg.Tree

namespace Depccg
open Str

namespace Read

/-! ### the AUTO reader -/

/-- `line[i]`; IndexError beyond the end -/
def charAt (line : Str) (i : Nat) : Except Err Nat :=
  match line[i]? with
  | some c => .ok c
  | none => .error .indexError

/-- `_AutoLineReader.next()`: up to the next blank; when there is none Python's `find` gives -1,
    the slice drops the last character and the index restarts at 0 -/
def autoNext (line : Str) (idx : Nat) : Str × Nat :=
  match findChar cSpace (line.drop idx) with
  | some k => ((line.drop idx).take k, idx + k + 1)
  | none => (((line.take (line.length - 1)).drop idx), 0)

/-- CCGbank repair of category fields (`_fix` of `read_auto`), applied by the reader to the
    category fields it parses -/
def fixCat (t : Str) : Str :=
  if t == lit "((S[b]\\NP)/NP)/" then lit "(S[b]\\NP)/NP"
  else if endsWith t (lit ")[conj]") || endsWith t (lit "][conj]") then t.take (t.length - 6)
  else t

def autoToken (word t1 t2 : Str) : Token :=
  [(lit "word", word), (lit "pos", t1), (lit "tag1", t1), (lit "tag2", t2)]

/-- `str.replace('\\', '')` -/
def dropBackslashes (w : Str) : Str := w.filter fun c => c != cBSlash

mutual
/-- `next_node()` : dispatch on the character two after the cursor -/
def autoNode (lang : Lang) (line : Str) : Nat → Nat → List Token → Except Err (Tree × Nat × List Token)
  | 0, _, _ => .error .unsupported
  | fuel + 1, idx, toks =>
    match charAt line (idx + 2) with
    | .error e => .error e
    | .ok c =>
      if c == 76 then          -- 'L'
        -- parse_leaf: check '(' '<' 'L'
        match charAt line idx, charAt line (idx + 1) with
        | .ok c0, .ok c1 =>
          if c0 != cLPar || c1 != cLt then .error .runtime else
          let (_, i1) := autoNext line idx
          let (catT, i2) := autoNext line i1
          match Cat.parse (fixCat catT) with
          | .error e => .error e
          | .ok cat =>
            let (t1, i3) := autoNext line i2
            let (t2, i4) := autoNext line i3
            let (w, i5) := autoNext line i4
            let (_, i6) := autoNext line i5
            let tok := autoToken (dropBackslashes w) t1 t2
            .ok (Tree.mkTerminal tok cat, i6, toks ++ [tok])
        | .error e, _ => .error e
        | _, .error e => .error e
      else if c == 84 then     -- 'T'
        match charAt line idx, charAt line (idx + 1) with
        | .ok c0, .ok c1 =>
          if c0 != cLPar || c1 != cLt then .error .runtime else
          let (_, i1) := autoNext line idx
          let (catT, i2) := autoNext line i1
          match Cat.parse (fixCat catT) with
          | .error e => .error e
          | .ok cat =>
            let (h, i3) := autoNext line i2
            let (_, i4) := autoNext line i3
            match autoChildren lang line fuel i4 toks [] with
            | .error e => .error e
            | .ok (children, i5, toks') =>
              let (_, i6) := autoNext line i5
              match children with
              | [l, r] =>
                match guess lang cat l.cat r.cat with
                | .error e => .error e
                | .ok rule => .ok (.bin cat rule.opString rule.opSymbol (h == lit "0") l r, i6, toks')
              | [ch] => .ok (Tree.mkUnary cat ch, i6, toks')
              | _ => .error .runtime
        | .error e, _ => .error e
        | _, .error e => .error e
      else .error .runtime

/-- `while self.peek() != ')': children.append(self.next_node())` -/
def autoChildren (lang : Lang) (line : Str) : Nat → Nat → List Token → List Tree →
    Except Err (List Tree × Nat × List Token)
  | 0, _, _, _ => .error .unsupported
  | fuel + 1, idx, toks, acc =>
    match charAt line idx with
    | .error e => .error e
    | .ok c =>
      if c == cRPar then .ok (acc, idx, toks) else
      match autoNode lang line fuel idx toks with
      | .error e => .error e
      | .ok (t, idx', toks') => autoChildren lang line fuel idx' toks' (acc ++ [t])
end

/-- one non-empty, non-`ID` line of `read_auto` (the line is stripped by the caller) -/
def readAutoLine (lang : Lang) (line : Str) : Except Err (Tree × List Token) :=
  match autoNode lang line (2 * line.length + 2) 0 [] with
  | .error e => .error e
  | .ok (t, _, toks) => .ok (t, toks)


/-! ### the PTB reader `_parse_ptb` -/

inductive PItem where
  | cat (c : Cat)
  | word (w : Str)
  | tree (t : Tree)
  deriving Repr

structure PState where
  stack : List PItem        -- head = Python's stack[-1]
  tokens : List Token
  deriving Repr

/-- `while isinstance(stack[-1], Tree): children.append(stack.pop())`; IndexError when the stack
    runs empty -/
def popTrees : List PItem → List Tree → Except Err (List Tree × List PItem)
  | [], _ => .error .indexError
  | .tree t :: rest, acc => popTrees rest (acc ++ [t])
  | st, acc => .ok (acc, st)

/-- `reduce(item)`; AssertionErrors are turned into RuntimeError by the caller's `except` -/
def ptbReduce (lang : Lang) : Nat → Str → PState → Except Err PState
  | 0, _, _ => .error .unsupported
  | fuel + 1, item, st =>
    match item.getLast? with
    | none => .error .indexError                       -- `item[-1]` on an empty string
    | some c =>
      if c != cRPar then
        .ok { stack := .word item :: st.stack, tokens := st.tokens ++ [[(lit "word", item)]] }
      else
        match ptbReduce lang fuel item.dropLast st with
        | .error e => .error e
        | .ok st1 =>
          match st1.stack with
          | [] => .error .indexError
          | .word w :: rest =>
            match rest with
            | [] => .error .indexError
            | .cat c :: rest2 =>
              .ok { st1 with stack := .tree (Tree.mkTerminal [(lit "word", w)] c) :: rest2 }
            | _ :: _ => .error .unsupported            -- a tree whose category is not a category
          | .cat _ :: _ => .error .runtime              -- assert isinstance(stack[-1], Tree)
          | .tree t :: rest =>
            match popTrees (.tree t :: rest) [] with
            | .error e => .error e
            | .ok (children, rest2) =>
              match rest2 with
              | [] => .error .indexError
              | .cat c :: rest3 =>
                match children with
                | [ch] => .ok { st1 with stack := .tree (Tree.mkUnary c ch) :: rest3 }
                | [r, l] =>
                  match guess lang c l.cat r.cat with
                  | .error e => .error e
                  | .ok rule =>
                    .ok { st1 with stack := .tree (.bin c rule.opString rule.opSymbol rule.headLeft l r) :: rest3 }
                | _ => .error .runtime                  -- assert False
              | _ :: _ => .error .unsupported

/-- the loop of `rec()` over the blank-separated items -/
def ptbLoop (lang : Lang) : List Str → PState → Except Err PState
  | [], st => .ok st
  | item :: rest, st =>
    match item with
    | [] => .error .indexError                          -- `item[0]` on an empty string
    | c0 :: tl =>
      if c0 == cLPar then
        match Cat.parse tl with
        | .error e => .error e
        | .ok c => ptbLoop lang rest { st with stack := .cat c :: st.stack }
      else if item.getLast? == some cRPar then
        match ptbReduce lang (item.length + 1) item st with
        | .error e => .error e
        | .ok st' => ptbLoop lang rest st'
      else .error .runtime                              -- the assertion on the item's shape

/-- `_parse_ptb(tree_string)` -/
def parsePtb (lang : Lang) (s : Str) : Except Err (Tree × List Token) :=
  if !(startsWith s (lit "(ROOT ")) then .error .assertion else
  let body := (s.take (s.length - 1)).drop 6
  match ptbLoop lang (splitOn cSpace body) { stack := [], tokens := [] } with
  | .error .assertion => .error .runtime          -- `except AssertionError: raise RuntimeError`
  | .error e => .error e
  | .ok st =>
    match st.stack with
    | [.tree t] => .ok (t, st.tokens)
    | _ => .error .runtime

/-! ### the Japanese CCGbank reader `_JaCCGLineReader` -/

def jaCombinators : List Str :=
  [lit "SSEQ", lit ">", lit "<", lit ">B", lit "<B1", lit "<B2", lit "<B3", lit "<B4", lit ">Bx1", lit ">Bx2",
   lit ">Bx3", lit "ADNext", lit "ADNint", lit "ADV0", lit "ADV1", lit "ADV2"]

/-- `next(target)`: up to the next occurrence of `target`; -1 handling as in the AUTO reader -/
def jaNext (line : Str) (idx : Nat) (target : Nat) : Str × Nat :=
  match findChar target (line.drop idx) with
  | some k => ((line.drop idx).take k, idx + k + 1)
  | none => (((line.take (line.length - 1)).drop idx), 0)

/-- `DEPENDENCY.sub('', cat)` with `DEPENDENCY = re.compile(r'{.+?}')`: remove every `{…}` group
    with at least one character inside, leftmost, non-greedy -/
def stripDepsAux : Nat → Str → Str
  | 0, s => s
  | _, [] => []
  | fuel + 1, c :: cs =>
    if c == cLBrace then
      -- need at least one character, then the first `}` after it
      match cs with
      | [] => [c]
      | d :: ds =>
        match findChar cRBrace ds with
        | some k => stripDepsAux fuel (ds.drop (k + 1))
        | none => c :: stripDepsAux fuel (d :: ds)
    else c :: stripDepsAux fuel cs

def stripDeps (s : Str) : Str := stripDepsAux (s.length + 1) s

/-- `cat[:cat.find('_')]` when there is a `_` (after the `fix:`), the whole string otherwise -/
def cutSuffix (s : Str) : Str :=
  match findChar cUnderscore s with
  | some k => s.take k
  | none => s

mutual
def jaNode (line : Str) : Nat → Nat → List Token → Except Err (Tree × Nat × List Token)
  | 0, _, _ => .error .unsupported
  | fuel + 1, idx, toks =>
    -- next_node: is the text between the brace and the next blank a combinator?
    let head := match findChar cSpace (line.drop idx) with
      | some k => (line.drop (idx + 1)).take (k - 1)
      | none => (line.take (line.length - 1)).drop (idx + 1)
    if jaCombinators.elem head then
      -- parse_tree
      match charAt line idx with
      | .error e => .error e
      | .ok c0 =>
        if c0 != cLBrace then .error .runtime else
        let (opT, i1) := jaNext line idx cSpace
        let op := opT.drop 1
        let (catT, i2) := jaNext line i1 cSpace
        match Cat.parse (stripDeps catT) with
        | .error e => .error e
        | .ok cat =>
          match charAt line i2 with
          | .error e => .error e
          | .ok c1 =>
            if c1 != cLBrace then .error .runtime else
            match jaChildren line fuel i2 toks [] with
            | .error e => .error e
            | .ok (children, i3, toks') =>
              let (_, i4) := jaNext line i3 cRBrace
              match children with
              | [ch] => .ok (.un cat op op ch, i4, toks')
              | [l, r] => .ok (.bin cat op op true l r, i4, toks')
              | _ => .error .assertion
    else
      -- parse_leaf
      match charAt line idx with
      | .error e => .error e
      | .ok c0 =>
        if c0 != cLBrace then .error .runtime else
        let (catT0, i1) := jaNext line idx cSpace
        let catT := stripDeps (cutSuffix (catT0.drop 1))
        match Cat.parse catT with
        | .error e => .error e
        | .ok cat =>
          let (rest, i2) := jaNext line i1 cRBrace
          match splitOn cSlash rest.dropLast with        -- `self.next('}')[:-1]`
          | [surf, base, pos1, pos2] =>
            let tok : Token := [(lit "surf", surf), (lit "base", base), (lit "pos1", pos1), (lit "pos2", pos2)]
            .ok (Tree.mkTerminal [(lit "word", surf)] cat, i2, toks ++ [tok])
          | _ => .error .valueError

/-- `while self.peek() != '}': children.append(self.next_node()); if self.peek() == ' ': self.next(' ')` -/
def jaChildren (line : Str) : Nat → Nat → List Token → List Tree → Except Err (List Tree × Nat × List Token)
  | 0, _, _, _ => .error .unsupported
  | fuel + 1, idx, toks, acc =>
    match charAt line idx with
    | .error e => .error e
    | .ok c =>
      if c == cRBrace then .ok (acc, idx, toks) else
      match jaNode line fuel idx toks with
      | .error e => .error e
      | .ok (t, idx', toks') =>
        match charAt line idx' with
        | .error e => .error e
        | .ok c' =>
          let idx'' := if c' == cSpace then (jaNext line idx' cSpace).2 else idx'
          jaChildren line fuel idx'' toks' (acc ++ [t])
end

def readJaLine (line : Str) : Except Err (Tree × List Token) :=
  match jaNode line (2 * line.length + 2) 0 [] with
  | .error e => .error e
  | .ok (t, _, toks) => .ok (t, toks)

end Read
end Depccg
