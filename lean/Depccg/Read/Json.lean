/-
  An independent reader of the `--format json` output (`json.dumps(results, indent=4)`), written
  from the JSON grammar and from what Python's `json.loads` does with it:

    value   := string | number | `-Infinity` | `[` value (`,` value)* `]` | `[` `]`
             | `{` string `:` value (`,` string `:` value)* `}` | `{` `}`
    blanks (space, newline, TAB, CR) may stand before and after every token;
    string  := `"` … `"` : the escapes `\" \\ \/ \b \f \n \r \t` and `\uXXXX` (four hex digits of
               either case); a `\uD800`..`\uDBFF` directly followed by a `\uDC00`..`\uDFFF` is one
               code point beyond the basic plane (`json.loads` joins the pair; a lone half is kept
               as it is); every other character from 32 on stands for itself, control characters
               are not allowed;
    number  := `-`? digits `.` digits   (the integer part without a superfluous leading zero);
               the value is taken exactly (a rational); the printed scores are multiples of 1/64,
               and the reader returns the numerator `k` of `k/64` (any other number is rejected);
    `-Infinity` is what `json.dumps` writes for `-float('inf')`.

  The whole input must be one value (blanks may follow it).  `readJsonOutput` then takes the value
  apart the way a consumer of the file would: sentence numbers, the entries of every sentence,
  the score `log_prob` and the tree (`children` marks a rule node) of every entry.

  Mathlib-free; fuel recursion only (the fuel is the length of the text still to be read), so
  everything evaluates in the kernel and compiles natively.
-/
import Depccg.Print.Json
import Depccg.Read.Conll

namespace Depccg
namespace Read
open Str Print

/-! ### characters -/

/-- JSON's insignificant whitespace -/
def jsonWs (c : Nat) : Bool := c == 32 || c == 10 || c == 9 || c == 13

def jsonSkipWs : Str → Str
  | [] => []
  | c :: cs => if jsonWs c then jsonSkipWs cs else c :: cs

def jsonDigit (c : Nat) : Bool := decide (48 ≤ c) && decide (c ≤ 57)

/-- the value of a hex digit of either case -/
def jsonHexVal (c : Nat) : Option Nat :=
  if 48 ≤ c ∧ c ≤ 57 then some (c - 48)
  else if 97 ≤ c ∧ c ≤ 102 then some (c - 87)
  else if 65 ≤ c ∧ c ≤ 70 then some (c - 55)
  else none

/-- the `XXXX` of a `\uXXXX` -/
def jsonHex4 : Str → Option (Nat × Str)
  | a :: b :: c :: d :: rest =>
    match jsonHexVal a, jsonHexVal b, jsonHexVal c, jsonHexVal d with
    | some x, some y, some z, some w => some (x * 4096 + y * 256 + z * 16 + w, rest)
    | _, _, _, _ => none
  | _ => none

/-- the character a one-letter escape stands for -/
def jsonUnescape (e : Nat) : Option Nat :=
  if e = 34 then some 34            -- \"
  else if e = 92 then some 92       -- \\
  else if e = 47 then some 47       -- \/
  else if e = 98 then some 8        -- \b
  else if e = 102 then some 12      -- \f
  else if e = 110 then some 10      -- \n
  else if e = 114 then some 13      -- \r
  else if e = 116 then some 9       -- \t
  else none

/-! ### strings -/

/-- the rest of a string, after the opening quote; returns the text and what follows the closing
    quote (`py_scanstring`) -/
def jsonReadStr : Nat → Str → Str → Option (Str × Str)
  | 0, _, _ => none
  | _ + 1, _, [] => none
  | fuel + 1, acc, c :: cs =>
    if c = 34 then some (acc.reverse, cs)
    else if c = 92 then
      match cs with
      | [] => none
      | e :: r =>
        if e = 117 then
          match jsonHex4 r with
          | none => none
          | some (u, r1) =>
            if 55296 ≤ u ∧ u ≤ 56319 then
              -- a high surrogate: joined with a low surrogate escape that follows directly
              match r1 with
              | b :: m :: r2 =>
                if b = 92 ∧ m = 117 then
                  match jsonHex4 r2 with
                  | none => none
                  | some (lo, r3) =>
                    if 56320 ≤ lo ∧ lo ≤ 57343 then
                      jsonReadStr fuel ((65536 + (u - 55296) * 1024 + (lo - 56320)) :: acc) r3
                    else jsonReadStr fuel (u :: acc) r1
                else jsonReadStr fuel (u :: acc) r1
              | _ => jsonReadStr fuel (u :: acc) r1
            else jsonReadStr fuel (u :: acc) r1
        else
          match jsonUnescape e with
          | some x => jsonReadStr fuel (x :: acc) r
          | none => none
    else if c < 32 then none
    else jsonReadStr fuel (c :: acc) cs

/-! ### numbers -/

/-- the value of a string of digits -/
def jsonDigitsVal (ds : Str) : Nat := ds.foldl (fun a c => a * 10 + (c - 48)) 0

/-- `p` taken off the front of `s` -/
def jsonDropPrefix : Str → Str → Option Str
  | [], s => some s
  | _ :: _, [] => none
  | p :: ps, c :: cs => if c = p then jsonDropPrefix ps cs else none

/-- `-Infinity` -/
def jsonNegInfLit : Str := [45, 73, 110, 102, 105, 110, 105, 116, 121]

/-- `-?digits.digits`, read exactly: the value is `±(ip + fp / 10^|fp|)`; returned is the
    numerator of the value over 64 when that is an integer -/
def jsonReadNumber (s : Str) : Option (JVal × Str) :=
  let neg := s.head? == some 45
  let s1 := if neg then s.drop 1 else s
  let ip := s1.takeWhile jsonDigit
  match s1.dropWhile jsonDigit with
  | dot :: s2 =>
    if dot = 46 then
      let fp := s2.takeWhile jsonDigit
      match conllNat ip with
      | none => none
      | some n =>
        if fp.isEmpty then none
        else
          let den := 10 ^ fp.length
          let num := 64 * (n * den + jsonDigitsVal fp)
          if num % den = 0 then
            some (.num (if neg then - ((num / den : Nat) : Int) else ((num / den : Nat) : Int)),
                  s2.dropWhile jsonDigit)
          else none
    else none
  | [] => none

/-! ### values -/

mutual
/-- one value (blanks before it are skipped) and the text after it -/
def parseVal : Nat → Str → Option (JVal × Str)
  | 0, _ => none
  | fuel + 1, s =>
    match jsonSkipWs s with
    | [] => none
    | c :: r =>
      if c = 34 then
        match jsonReadStr (r.length + 1) [] r with
        | some (t, r1) => some (.str t, r1)
        | none => none
      else if c = 91 then
        match jsonSkipWs r with
        | [] => none
        | d :: r1 =>
          if d = 93 then some (.arr [], r1)
          else
            match parseVal fuel (d :: r1) with
            | none => none
            | some (x, r2) =>
              match parseItems fuel r2 with
              | none => none
              | some (xs, r3) => some (.arr (x :: xs), r3)
      else if c = 123 then
        match jsonSkipWs r with
        | [] => none
        | d :: r1 =>
          if d = 125 then some (.obj [], r1)
          else
            match parseMember fuel (d :: r1) with
            | none => none
            | some (m, r2) =>
              match parseMembers fuel r2 with
              | none => none
              | some (ms, r3) => some (.obj (m :: ms), r3)
      else
        match jsonDropPrefix jsonNegInfLit (c :: r) with
        | some r1 => some (.negInf, r1)
        | none => jsonReadNumber (c :: r)

/-- after an item of an array: `]`, or `,` and the further items -/
def parseItems : Nat → Str → Option (List JVal × Str)
  | 0, _ => none
  | fuel + 1, s =>
    match jsonSkipWs s with
    | [] => none
    | c :: r =>
      if c = 93 then some ([], r)
      else if c = 44 then
        match parseVal fuel r with
        | none => none
        | some (x, r1) =>
          match parseItems fuel r1 with
          | none => none
          | some (xs, r2) => some (x :: xs, r2)
      else none

/-- `"key" : value` -/
def parseMember : Nat → Str → Option ((Str × JVal) × Str)
  | 0, _ => none
  | fuel + 1, s =>
    match jsonSkipWs s with
    | [] => none
    | q :: r =>
      if q = 34 then
        match jsonReadStr (r.length + 1) [] r with
        | none => none
        | some (k, r1) =>
          match jsonSkipWs r1 with
          | [] => none
          | colon :: r2 =>
            if colon = 58 then
              match parseVal fuel r2 with
              | none => none
              | some (v, r3) => some ((k, v), r3)
            else none
      else none

/-- after a member of an object: `}`, or `,` and the further members -/
def parseMembers : Nat → Str → Option (List (Str × JVal) × Str)
  | 0, _ => none
  | fuel + 1, s =>
    match jsonSkipWs s with
    | [] => none
    | c :: r =>
      if c = 125 then some ([], r)
      else if c = 44 then
        match parseMember fuel r with
        | none => none
        | some (m, r1) =>
          match parseMembers fuel r1 with
          | none => none
          | some (ms, r2) => some (m :: ms, r2)
      else none
end

/-- `json.loads(text)` on the subset described at the top of the file -/
def parseJson (s : Str) : Option JVal :=
  match parseVal (s.length + 1) s with
  | some (v, rest) => if (jsonSkipWs rest).isEmpty then some v else none
  | none => none

/-! ### from the value to the sentences, trees and scores -/

/-- `d.get(key)` -/
def jsonGet : List (Str × JVal) → Str → Option JVal
  | [], _ => none
  | (k', v) :: rest, k => if k' = k then some v else jsonGet rest k

/-- `del d[key]` -/
def jsonErase (ms : List (Str × JVal)) (k : Str) : List (Str × JVal) := ms.filter fun p => p.1 != k

/-- one more string member in front of the members already read -/
def jsonAddField (k s : Str) :
    Option (List (Str × Str) × Option (List JTree)) → Option (List (Str × Str) × Option (List JTree))
  | some (fields, kids) => some ((k, s) :: fields, kids)
  | none => none

/-- the member `children` (at most one) -/
def jsonAddKids :
    Option (List JTree) → Option (List (Str × Str) × Option (List JTree)) →
      Option (List (Str × Str) × Option (List JTree))
  | some ks, some (fields, none) => some (fields, some ks)
  | _, _ => none

mutual
/-- a tree dict: an object with a member `children` is a rule node, any other object a leaf -/
def jsonTreeOf : JVal → Option JTree
  | .obj ms =>
    match jsonTreeMembers ms with
    | none => none
    | some (fields, none) => some (.leaf fields)
    | some (fields, some kids) =>
      match Dict.get? fields (lit "type"), Dict.get? fields (lit "cat") with
      | some t, some c => some (.node t c kids)
      | _, _ => none
  | _ => none

/-- the members of a tree dict: the string members in order, and the converted `children`
    (an array of tree dicts); any other member is an error -/
def jsonTreeMembers : List (Str × JVal) → Option (List (Str × Str) × Option (List JTree))
  | [] => some ([], none)
  | (k, .str s) :: ms => if k = lit "children" then none else jsonAddField k s (jsonTreeMembers ms)
  | (k, .arr xs) :: ms => if k = lit "children" then jsonAddKids (jsonTreeItems xs) (jsonTreeMembers ms) else none
  | _ :: _ => none

def jsonTreeItems : List JVal → Option (List JTree)
  | [] => some []
  | x :: xs =>
    match jsonTreeOf x, jsonTreeItems xs with
    | some t, some ts => some (t :: ts)
    | _, _ => none
end

/-- one entry of a sentence: the tree dict with the extra member `log_prob` -/
def jsonReadEntry : JVal → Option (JTree × Option Int)
  | .obj ms =>
    match jsonGet ms (lit "log_prob") with
    | some (.num k) => (jsonTreeOf (.obj (jsonErase ms (lit "log_prob")))).map fun t => (t, some k)
    | some .negInf => (jsonTreeOf (.obj (jsonErase ms (lit "log_prob")))).map fun t => (t, none)
    | _ => none
  | _ => none

def jsonReadEntries : List JVal → Option (List (JTree × Option Int))
  | [] => some []
  | x :: xs =>
    match jsonReadEntry x, jsonReadEntries xs with
    | some e, some es => some (e :: es)
    | _, _ => none

/-- the members of the top-level dict: sentence number ↦ list of entries -/
def jsonReadSentences : List (Str × JVal) → Option (List (Nat × List (JTree × Option Int)))
  | [] => some []
  | (k, .arr xs) :: rest =>
    match conllNat k, jsonReadEntries xs, jsonReadSentences rest with
    | some i, some es, some more => some ((i, es) :: more)
    | _, _, _ => none
  | _ :: _ => none

/-- what a `--format json` output says: per sentence its number and, in n-best order, the tree
    and the score (`none` for `-Infinity`) of every entry -/
def readJsonOutput (s : Str) : Option (List (Nat × List (JTree × Option Int))) :=
  match parseJson s with
  | some (.obj ms) => jsonReadSentences ms
  | _ => none

/-! equality of json trees is decidable -/
mutual
def jtreeDecEq : (a b : JTree) → Decidable (a = b)
  | .leaf f, .leaf f' =>
    if h : f = f' then isTrue (by rw [h]) else isFalse (by intro e; cases e; exact h rfl)
  | .node t c ks, .node t' c' ks' =>
    if h : t = t' ∧ c = c' then
      match jtreeDecEqList ks ks' with
      | isTrue hk => isTrue (by rw [h.1, h.2, hk])
      | isFalse hk => isFalse (by intro e; cases e; exact hk rfl)
    else isFalse (by intro e; cases e; exact h ⟨rfl, rfl⟩)
  | .leaf .., .node .. => isFalse (by intro e; cases e)
  | .node .., .leaf .. => isFalse (by intro e; cases e)
def jtreeDecEqList : (as bs : List JTree) → Decidable (as = bs)
  | [], [] => isTrue rfl
  | a :: as, b :: bs =>
    match jtreeDecEq a b with
    | isTrue h1 =>
      match jtreeDecEqList as bs with
      | isTrue h2 => isTrue (by rw [h1, h2])
      | isFalse h2 => isFalse (by intro e; cases e; exact h2 rfl)
    | isFalse h1 => isFalse (by intro e; cases e; exact h1 rfl)
  | [], _ :: _ => isFalse (by intro e; cases e)
  | _ :: _, [] => isFalse (by intro e; cases e)
end

instance : DecidableEq JTree := jtreeDecEq

end Read
end Depccg
