/-
  An independent reader of the CoNLL-like table written by depccg/printer/conll.py. depccg has no
  reader for this format; this one is written from the layout alone:

    the text is a sequence of lines separated by newlines (no newline after the last line);
    every line is one word of the sentence and has exactly ten TAB-separated columns

      1  id        the position of the word, a decimal number
      2  word
      3  lemma
      4  pos
      5  pos       (the tag a second time)
      6  _
      7  head      a decimal number: the id of the word this word depends on, 0 for the root
      8  category
      9  _
      10 fragment  the piece of the AUTO bracket string that belongs to the word

  Numbers are read strictly: a non-empty string of the digits `0`-`9` without a superfluous
  leading zero (what Python's `str(n)` writes); the columns 6 and 9 must be exactly `_`; a line
  with fewer or more than ten columns is rejected. The other columns are arbitrary texts (they may
  be empty or contain blanks): the format has no quoting, so a TAB or a newline inside a field
  cannot be represented.
-/
import Depccg.Str

namespace Depccg
namespace Read
open Str

/-- one line of the table -/
structure ConllRow where
  id : Nat
  word : Str
  lemma : Str
  pos : Str
  pos2 : Str
  head : Nat
  cat : Str
  fragment : Str
  deriving DecidableEq, Repr

/-- digits, most significant first, onto an accumulator; `none` on anything that is not a digit -/
def conllDigits : Nat → Str → Option Nat
  | acc, [] => some acc
  | acc, c :: cs => if 48 ≤ c ∧ c ≤ 57 then conllDigits (acc * 10 + (c - 48)) cs else none

/-- a decimal number as `str(n)` writes it: at least one digit, no leading zero except for `0` -/
def conllNat (s : Str) : Option Nat :=
  match s with
  | [] => none
  | [c] => conllDigits 0 [c]
  | c :: d :: r => if c = 48 then none else conllDigits 0 (c :: d :: r)

/-- the text `_` of the two unused columns -/
def conllBlankCol (s : Str) : Bool := s == [cUnderscore]

/-- one line: exactly ten columns -/
def decConllRow (line : Str) : Option ConllRow :=
  match splitOn 9 line with
  | [a, w, l, p, q, u1, h, c, u2, f] =>
    if conllBlankCol u1 && conllBlankCol u2 then
      match conllNat a, conllNat h with
      | some i, some j =>
        some { id := i, word := w, lemma := l, pos := p, pos2 := q, head := j, cat := c, fragment := f }
      | _, _ => none
    else none
  | _ => none

def decConllRows : List Str → Option (List ConllRow)
  | [] => some []
  | l :: ls =>
    match decConllRow l, decConllRows ls with
    | some r, some rs => some (r :: rs)
    | _, _ => none

/-- the table of a sentence -/
def decConll (text : Str) : Option (List ConllRow) := decConllRows (splitOn 10 text)

/-- what a dependency table must satisfy beyond its layout: the ids count the lines from 1,
    exactly one word is the root (head 0), every other head is the id of another word -/
def conllNumberedFrom : Nat → List ConllRow → Bool
  | _, [] => true
  | n, r :: rs => r.id == n && conllNumberedFrom (n + 1) rs

def conllValidHeads (rows : List ConllRow) : Bool :=
  (rows.filter fun r => r.head == 0).length == 1 &&
  rows.all fun r => r.head ≤ rows.length && r.head != r.id

def conllValidTable (rows : List ConllRow) : Bool := conllNumberedFrom 1 rows && conllValidHeads rows

end Read
end Depccg
