/-
  Model of depccg/grammar/ja.py : the 11 Japanese combinators in order, the seen-rule gate,
  unary rules and their labels.
-/
import Depccg.En

namespace Depccg
open Str Cat

namespace Ja
open Unify

abbrev Comb := Cat → Cat → Except Err (Option RuleRes)

def mk (c : Cat) (os sym : String) : Except Err (Option RuleRes) :=
  .ok (some ⟨c, lit os, lit sym, false⟩)

/-- the common shape `uni = Unification(px, py); if uni(x, y): result = keep if modifier else build` -/
def viaUnify (px py : Cat) (x y : Cat) (modifierOf keep : Cat) (os sym : String)
    (build : Bindings → Except Err Cat) : Except Err (Option RuleRes) :=
  match unify px py x y with
  | .error e => .error e
  | .ok none => .ok none
  | .ok (some σ) =>
    if isModifier modifierOf then mk keep os sym else
    match build σ with
    | .ok r => mk r os sym
    | .error e => .error e

def get2 (σ : Bindings) (k1 k2 : Nat) (f : Cat → Cat → Except Err Cat) : Except Err Cat :=
  match σ.get [k1] with
  | .error e => .error e
  | .ok a => match σ.get [k2] with
    | .error e => .error e
    | .ok c => f a c

def get3 (σ : Bindings) (k1 k2 k3 : Nat) (f : Cat → Cat → Cat → Except Err Cat) : Except Err Cat :=
  get2 σ k1 k2 fun a c => match σ.get [k3] with
    | .error e => .error e
    | .ok d => f a c d

open Pat in
def forwardApplication : Comb := fun x y =>
  viaUnify (fwd a b) b x y x y "fa" ">" fun σ => σ.get [97]

open Pat in
def backwardApplication : Comb := fun x y =>
  viaUnify b (bwd a b) x y y x "ba" "<" fun σ => σ.get [97]

open Pat in
def forwardComposition : Comb := fun x y =>
  viaUnify (fwd a b) (fwd b c) x y x y "fc" ">B" fun σ => get2 σ 97 99 fun a c => .ok (.fn a cSlash c)

/-- `x.left` : AttributeError on an atom -/
def leftOf : Cat → Except Err Cat
  | .fn l _ _ => .ok l
  | .atom .. => .error .attributeError

open Pat in
def generalizedBackwardComposition1 : Comb := fun x y =>
  viaUnify (bwd b c) (bwd a b) x y y x "bx" "<B1" fun σ => get2 σ 97 99 fun a c => .ok (.fn a cBSlash c)

open Pat in
def generalizedBackwardComposition2 : Comb := fun x y =>
  viaUnify (any (bwd b c) d) (bwd a b) x y y x "bx" "<B2" fun σ =>
    get3 σ 97 99 100 fun a c d => En.functorOf x (.fn a cBSlash c) d

open Pat in
def generalizedBackwardComposition3 : Comb := fun x y =>
  viaUnify (any (any (bwd b c) d) e) (bwd a b) x y y x "bx" "<B3" fun σ =>
    get3 σ 97 99 100 fun a c d =>
      match leftOf x with
      | .error er => .error er
      | .ok xl =>
        match En.functorOf xl (.fn a cBSlash c) d with
        | .error er => .error er
        | .ok inner =>
          match σ.get [101] with
          | .error er => .error er
          | .ok e => En.functorOf x inner e

open Pat in
def generalizedBackwardComposition4 : Comb := fun x y =>
  viaUnify (any (any (any (bwd b c) d) e) f) (bwd a b) x y y x "bx" "<B4" fun σ =>
    get3 σ 97 99 100 fun a c d =>
      match leftOf x with
      | .error er => .error er
      | .ok xl =>
        match leftOf xl with
        | .error er => .error er
        | .ok xll =>
          match En.functorOf xll (.fn a cBSlash c) d with
          | .error er => .error er
          | .ok i1 =>
            match σ.get [101] with
            | .error er => .error er
            | .ok e =>
              match En.functorOf xl i1 e with
              | .error er => .error er
              | .ok i2 =>
                match σ.get [102] with
                | .error er => .error er
                | .ok f => En.functorOf x i2 f

open Pat in
def generalizedForwardComposition1 : Comb := fun x y =>
  viaUnify (fwd a b) (bwd b c) x y x y "fx" ">Bx1" fun σ => get2 σ 97 99 fun a c => .ok (.fn a cBSlash c)

open Pat in
def generalizedForwardComposition2 : Comb := fun x y =>
  viaUnify (fwd a b) (any (bwd b c) d) x y x y "fx" ">Bx2" fun σ =>
    get3 σ 97 99 100 fun a c d => En.functorOf y (.fn a cBSlash c) d

open Pat in
def generalizedForwardComposition3 : Comb := fun x y =>
  viaUnify (fwd a b) (any (any (bwd b c) d) e) x y x y "fx" ">Bx3" fun σ =>
    get3 σ 97 99 100 fun a c d =>
      match leftOf y with
      | .error er => .error er
      | .ok yl =>
        match En.functorOf yl (.fn a cBSlash c) d with
        | .error er => .error er
        | .ok inner =>
          match σ.get [101] with
          | .error er => .error er
          | .ok e => En.functorOf y inner e

def triCat (base : String) (k1 v1 k2 v2 k3 v3 : String) : Cat :=
  .atom (lit base) (.tri (lit k1) (lit v1) (lit k2) (lit v2) (lit k3) (lit v3))

def possibleRootCategories : List Cat :=
  [triCat "NP" "case" "nc" "mod" "nm" "fin" "f",
   triCat "NP" "case" "nc" "mod" "nm" "fin" "t",
   triCat "S" "mod" "nm" "form" "attr" "fin" "t",
   triCat "S" "mod" "nm" "form" "base" "fin" "f",
   triCat "S" "mod" "nm" "form" "base" "fin" "t",
   triCat "S" "mod" "nm" "form" "cont" "fin" "f",
   triCat "S" "mod" "nm" "form" "cont" "fin" "t",
   triCat "S" "mod" "nm" "form" "da" "fin" "f",
   triCat "S" "mod" "nm" "form" "da" "fin" "t",
   triCat "S" "mod" "nm" "form" "hyp" "fin" "t",
   triCat "S" "mod" "nm" "form" "imp" "fin" "f",
   triCat "S" "mod" "nm" "form" "imp" "fin" "t",
   triCat "S" "mod" "nm" "form" "r" "fin" "t",
   triCat "S" "mod" "nm" "form" "s" "fin" "t",
   triCat "S" "mod" "nm" "form" "stem" "fin" "f",
   triCat "S" "mod" "nm" "form" "stem" "fin" "t"]

def conjoin : Comb := fun x y =>
  if possibleRootCategories.any (Cat.pyEq x) && possibleRootCategories.any (Cat.pyEq y) then
    mk y "other" "SSEQ"
  else .ok none

def combinators : List Comb :=
  [forwardApplication, backwardApplication, forwardComposition,
   generalizedBackwardComposition1, generalizedBackwardComposition2,
   generalizedBackwardComposition3, generalizedBackwardComposition4,
   generalizedForwardComposition1, generalizedForwardComposition2,
   generalizedForwardComposition3, conjoin]

/-- `apply_binary_rules(x, y, seen_rules)` : the raw pair is the key -/
def applyBinary (seen : Option (List (Cat × Cat))) (x y : Cat) : Except Err (List RuleRes) :=
  let go := match seen with
    | none => true
    | some S => S.any fun p => Cat.pyEq p.1 x && Cat.pyEq p.2 y
  if go then En.applyAll combinators x y else .ok []

/-- leftmost-innermost atom: `x.arg(0)` -/
def resultAtom : Cat → Cat
  | .fn l _ _ => resultAtom l
  | c => c

def catS : Cat := .atom (lit "S") (.un none)
def catNP : Cat := .atom (lit "NP") (.un none)

/-- `_unary_rule_symbol(x)` -/
def unaryRuleSymbol (x : Cat) : Except Err Str :=
  match resultAtom x with
  | .atom _ (.tri k1 v1 k2 v2 k3 v3) =>
    let has (k v : String) : Bool :=
      (k1 == lit k && v1 == lit v) || (k2 == lit k && v2 == lit v) || (k3 == lit k && v3 == lit v)
    if has "mod" "adn" then
      if Cat.xorEq x catS then .ok (lit "ADNext") else .ok (lit "ADNint")
    else if has "mod" "adv" then
      if Cat.xorEq x (.fn catS cBSlash catNP) then .ok (lit "ADV1")
      else if Cat.xorEq x (.fn (.fn catS cBSlash catNP) cBSlash catNP) then .ok (lit "ADV2")
      else .ok (lit "ADV0")
    else .ok (lit "OTHER")
  | _ => .error .attributeError      -- `.items()` on a UnaryFeature

/-- `apply_unary_rules(x, unary_rules)` -/
def applyUnary (table : List (Cat × List Cat)) (x : Cat) : Except Err (List RuleRes) :=
  match table.find? fun p => Cat.pyEq p.1 x with
  | none => .ok []
  | some (_, []) => .ok []
  | some (_, targets) =>
    match unaryRuleSymbol x with
    | .error e => .error e
    | .ok sym => .ok (targets.map fun r => ⟨r, sym, sym, true⟩)

end Ja
end Depccg
