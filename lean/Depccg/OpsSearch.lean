/-
  Driver side of the `search` correspondence: decode a flat list of integers into a search
  problem, run the model, print status, pop trace and results.
-/
import Depccg.Search

namespace Depccg
namespace OpsSearch
open Search

abbrev IP (α : Type) := List Int → Option (α × List Int)

def takeN (n : Nat) (l : List Int) : Option (List Int × List Int) :=
  if l.length < n then none else some (l.take n, l.drop n)

def rows (r c : Nat) (l : List Int) : Option (List (List Int) × List Int) :=
  match r with
  | 0 => some ([], l)
  | r + 1 => do
    let (row, l) ← takeN c l
    let (rest, l) ← rows r c l
    pure (row :: rest, l)

def natOf (i : Int) : Nat := i.toNat

def binEntries : Nat → List Int → Option (List ((Nat × Nat) × List Rule) × List Int)
  | 0, l => some ([], l)
  | k + 1, l =>
    match l with
    | x :: y :: m :: l => do
      let (body, l) ← takeN (2 * natOf m) l
      let rec mk : List Int → List Rule
        | c :: h :: t => ⟨natOf c, h != 0⟩ :: mk t
        | _ => []
      let (rest, l) ← binEntries k l
      pure (((natOf x, natOf y), mk body) :: rest, l)
    | _ => none

def unEntries : Nat → List Int → Option (List (Nat × List Nat) × List Int)
  | 0, l => some ([], l)
  | k + 1, l =>
    match l with
    | x :: m :: l => do
      let (body, l) ← takeN (natOf m) l
      let (rest, l) ← unEntries k l
      pure ((natOf x, body.map natOf) :: rest, l)
    | _ => none

structure Problem where
  sent : Sent
  cfg : Cfg
  g : Grammar

def lookupBin (t : List ((Nat × Nat) × List Rule)) (x y : Nat) : List Rule :=
  match t.find? fun e => e.1.1 == x && e.1.2 == y with
  | some e => e.2
  | none => []

def lookupUn (t : List (Nat × List Nat)) (x : Nat) : List Nat :=
  match t.find? fun e => e.1 == x with
  | some e => e.2
  | none => []

def decode (l : List Int) : Option Problem :=
  match l with
  | n :: t :: l => do
    let n := natOf n
    let t := natOf t
    let (tags, l) ← rows n t l
    let (deps, l) ← rows n (n + 1) l
    match l with
    | r :: l =>
      let (roots, l) ← takeN (natOf r) l
      match l with
      | pen :: pr :: nb :: ms :: up :: l =>
        let (passes, l) ← (if up != 0 then rows n t l else some ([], l))
        match l with
        | nbE :: l =>
          let (bt, l) ← binEntries (natOf nbE) l
          match l with
          | nuE :: l =>
            let (ut, l) ← unEntries (natOf nuE) l
            if !l.isEmpty then none else
            pure { sent := { n := n, tags := tags, deps := deps, roots := roots.map natOf,
                             passes := passes.map (·.map (· != 0)) },
                   cfg := { penalty := pen, pruning := natOf pr, nbest := natOf nb, maxStep := natOf ms },
                   g := { bin := lookupBin bt, un := lookupUn ut } }
          | [] => none
        | [] => none
      | _ => none
    | [] => none
  | _ => none

def encDeriv : Deriv → String
  | .leaf t c => s!"L {t} {c}"
  | .un c r d => s!"U {c} {r} " ++ encDeriv d
  | .bin c r h l rr => s!"B {c} {r} {if h then 1 else 0} " ++ encDeriv l ++ " " ++ encDeriv rr

def encPop (i : Item) : String :=
  s!"P {if i.fin then 1 else 0} {i.inS} {i.outS} {i.start} {i.len} {i.cat} {i.head} {i.rule}"

def encOutcome (o : Outcome) : String :=
  let head := s!"st={if o.results.isEmpty then 1 else 0} steps={o.steps} tie={if o.tie then 1 else 0}"
  " ; ".intercalate (head :: (o.popped.map encPop ++ o.results.map fun r => s!"R {r.prio} " ++ encDeriv r.d))

def searchOp (ts : List String) : String :=
  match ts.foldr (fun t acc => match t.toInt?, acc with
      | some v, some l => some (v :: l) | _, _ => none) (some []) with
  | none => "bad-op"
  | some ints =>
    match decode ints with
    | none => "bad-op"
    | some p => encOutcome (Search.run p.g p.sent p.cfg)

/-- the beam alone: `beam` has the same input; output = admitted (score, id) per token -/
def beamOp (ts : List String) : String :=
  match ts.foldr (fun t acc => match t.toInt?, acc with
      | some v, some l => some (v :: l) | _, _ => none) (some []) with
  | none => "bad-op"
  | some ints =>
    match decode ints with
    | none => "bad-op"
    | some p =>
      " ; ".intercalate ((List.range p.sent.n).map fun tok =>
        " ".intercalate ((admitted p.sent p.cfg tok).map fun c => s!"{c.1}:{c.2}"))

end OpsSearch
end Depccg
