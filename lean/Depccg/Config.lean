/-
  depccg/allennlp/utils.py `read_params`: from the configuration (the jsonnet file as data: the
  `unary_rules` pairs, the `seen_rules` pairs, `targets`, `cat_dict`) to what the program parses
  with — the unary table (`defaultdict(list)` filled in file order), the seen-rule set (both sides
  parsed and `[X]`/`[nb]`-erased; an empty set counts as "no filter"), the root categories, the
  category dictionary. The two rule functions the program uses are the grammar's with these
  arguments bound (`functools.partial`): `En.applyBinary seen`, `En.applyUnary table` (and `Ja.…`).
-/
import Depccg.Ja
import Depccg.Cli

namespace Depccg
namespace Config
open Str

structure Params where
  unaryRules : List (Str × Str)
  seenRules : List (Str × Str)
  targets : List Str
  catDict : List (Str × List Str)          -- the json object, keys in file order

/-- `unary_rules[key].append(value)` on a `defaultdict(list)` kept in insertion order -/
def appendKey (tbl : List (Cat × List Cat)) (k v : Cat) : List (Cat × List Cat) :=
  match tbl with
  | [] => [(k, [v])]
  | (k', vs) :: rest => if Cat.pyEq k' k then (k', vs ++ [v]) :: rest else (k', vs) :: appendKey rest k v

/-- the loop over `params.pop('unary_rules')`: key parsed first, then the value -/
def unaryTable : List (Cat × List Cat) → List (Str × Str) → Except Err (List (Cat × List Cat))
  | tbl, [] => .ok tbl
  | tbl, (ks, vs) :: rest =>
    match Cat.parse ks with
    | .error e => .error e
    | .ok k =>
      match Cat.parse vs with
      | .error e => .error e
      | .ok v => unaryTable (appendKey tbl k v) rest

def nbX : List Str := [lit "X", lit "nb"]

/-- one element of the set comprehension -/
def seenPair (p : Str × Str) : Except Err (Cat × Cat) :=
  match Cat.parse p.1 with
  | .error e => .error e
  | .ok x =>
    match Cat.clear nbX x with
    | .error e => .error e
    | .ok sx =>
      match Cat.parse p.2 with
      | .error e => .error e
      | .ok y =>
        match Cat.clear nbX y with
        | .error e => .error e
        | .ok sy => .ok (sx, sy)

/-- the set as a list (membership is all that is asked of it); `None` when empty -/
def seenSet (pairs : List (Str × Str)) : Except Err (Option (List (Cat × Cat))) :=
  match Cli.mapExcept seenPair pairs with
  | .error e => .error e
  | .ok [] => .ok none
  | .ok s => .ok (some s)

def dictEntry (p : Str × List Str) : Except Err (Str × List Cat) :=
  match Cli.mapExcept Cat.parse p.2 with
  | .error e => .error e
  | .ok cs => .ok (p.1, cs)

structure Loaded where
  table : List (Cat × List Cat)
  catDict : Option (List (Str × List Cat))
  seen : Option (List (Cat × Cat))
  roots : List Cat

/-- `read_params(path, disable_category_dictionary, disable_seen_rules)`: unary rules, then the
    dictionary, then the seen rules, then the targets; the first category that does not parse
    raises -/
def readParams (p : Params) (disableDict disableSeen : Bool) : Except Err Loaded :=
  match unaryTable [] p.unaryRules with
  | .error e => .error e
  | .ok table =>
    match (if disableDict then .ok none else (Cli.mapExcept dictEntry p.catDict).map some) with
    | .error e => .error e
    | .ok dict =>
      match (if disableSeen then .ok none else seenSet p.seenRules) with
      | .error e => .error e
      | .ok seen =>
        match Cli.mapExcept Cat.parse p.targets with
        | .error e => .error e
        | .ok roots => .ok { table := table, catDict := dict, seen := seen, roots := roots }

end Config
end Depccg
