/-
  Driver side of the `lazyrun` correspondence: the whole of `depccg._parsing.run` in the model —
  the Lean rule functions (En / Ja), the callback side (category table, lazily filled cache), the
  search and `retrieve_tree` — on a batch of sentences, against the real `depccg.parsing.run`.

  lazyrun <en|ja> <seen-name|-> <unary-name> <cats> <roots> <penalty> <pruning> <nbest> <maxStep>
          <maxLength|-> <M> { <n> <token>*n <tags n*K> <deps n*(n+1)> <0|1 passes> [<passes n*K>] }*M
-/
import Depccg.OpsMore
import Depccg.Lazy
import Depccg.Cli
import Depccg.TreeScore
import Depccg.OpsSearch

namespace Depccg
namespace OpsLazy
open Wire OpsTree Search GlueRun Lazy

def pInts (k : Nat) : P (List Int) := fun ts =>
  let rec go : Nat → List String → List Int → Option (List Int × List String)
    | 0, ts, acc => some (acc.reverse, ts)
    | j + 1, ts, acc => do let (v, ts) ← pInt ts; go j ts (v :: acc)
  go k ts []

def pRows (r c : Nat) : P (List (List Int)) := fun ts =>
  let rec go : Nat → List String → List (List Int) → Option (List (List Int) × List String)
    | 0, ts, acc => some (acc.reverse, ts)
    | j + 1, ts, acc => do let (row, ts) ← pInts c ts; go j ts (row :: acc)
  go r ts []

def pToks (n : Nat) : P (List Token) := fun ts =>
  let rec go : Nat → List String → List Token → Option (List Token × List String)
    | 0, ts, acc => some (acc.reverse, ts)
    | j + 1, ts, acc => do let (t, ts) ← pTok ts; go j ts (t :: acc)
  go n ts []

def pSentIn (K : Nat) : P SentIn := fun ts => do
  let (n, ts) ← pNat ts
  let (toks, ts) ← pToks n ts
  let (tags, ts) ← pRows n K ts
  let (deps, ts) ← pRows n (n + 1) ts
  let (up, ts) ← pNat ts
  let (passes, ts) ← (if up != 0 then pRows n K ts else some ([], ts))
  pure ({ tokens := toks, tags := tags, deps := deps, passes := passes.map (·.map (· != 0)) }, ts)

def pSents (K : Nat) : P (List SentIn) := fun ts => do
  let (m, ts) ← pNat ts
  let rec go : Nat → List String → List SentIn → Option (List SentIn × List String)
    | 0, ts, acc => some (acc.reverse, ts)
    | j + 1, ts, acc => do let (x, ts) ← pSentIn K ts; go j ts (x :: acc)
  go m ts []

def grammarFor (en : Bool) (seen : Option (List (Cat × Cat))) (table : List (Cat × List Cat)) : CatGrammar :=
  if en then
    { bin := fun x y => match En.applyBinary seen x y with | .ok rs => rs | .error _ => [],
      un := fun x => En.applyUnary table x }
  else
    { bin := fun x y => match Ja.applyBinary seen x y with | .ok rs => rs | .error _ => [],
      un := fun x => match Ja.applyUnary table x with | .ok rs => rs | .error _ => [] }

def encSent (r : Except Err SentResult × Outcome) : String :=
  let pops := String.join (r.2.popped.map fun i => " ; " ++ OpsSearch.encPop i)
  let head := s!"steps={r.2.steps} pops={r.2.popped.length}"
  match r.1 with
  | .error e => "E " ++ e.name ++ " " ++ head ++ pops
  | .ok .failed => "F " ++ head ++ pops
  | .ok (.parsed ts) =>
    "T " ++ head ++ pops ++ String.join (ts.map fun (t, sc) => " ; R " ++ toString sc ++ " " ++ encTree t)

def encRes (r : Except Err SentResult) : String :=
  match r with
  | .error e => "E " ++ e.name
  | .ok .failed => "F"
  | .ok (.parsed ts) => "T" ++ String.join (ts.map fun (t, sc) => " ; R " ++ toString sc ++ " " ++ encTree t)

def lazyOp (seenOf : String → Option (Option (List (Cat × Cat)))) (unaryOf : String → Option (List (Cat × List Cat)))
    (ts : List String) : String :=
  match ts with
  | lang :: sn :: un :: rest =>
    match seenOf sn, unaryOf un with
    | some seen, some table =>
      match (do
        let (cats, ts) ← pList pCat rest
        let (roots, ts) ← pList pCat ts
        let (pen, ts) ← pInt ts
        let (pr, ts) ← pNat ts
        let (nb, ts) ← pNat ts
        let (ms, ts) ← pNat ts
        let (ml, ts) ← (match ts with
          | "-" :: ts => some (none, ts)
          | t :: ts => t.toNat?.map fun v => (some v, ts)
          | [] => none)
        let (chunking, ts) ← (match ts with
          | "chunks" :: a :: b :: ts => (do let mc ← a.toNat?; let pc ← b.toNat?; pure (some (mc, pc), ts))
          | ts => some (none, ts))
        let (doc, ts) ← pSents cats.length ts
        if ts.isEmpty then pure (cats, roots, pen, pr, nb, ms, ml, chunking, doc) else none) with
      | none => "bad-op"
      | some (cats, roots, pen, pr, nb, ms, ml, chunking, doc) =>
        let G := grammarFor (lang == "en") seen table
        let cfg : Cfg := { penalty := pen, pruning := pr, nbest := nb, maxStep := ms }
        match chunking with
        | some (maxChunk, procs) =>
          -- `depccg.parsing.run` with chunks / worker processes: results only
          match Lazy.parsingRun G cats roots cfg ml maxChunk procs doc with
          | .error e => "err " ++ e.name
          | .ok rs => "ok -" ++ String.join (rs.map fun r => " || " ++ encRes r)
        | none =>
          match Lazy.runBatch G cats roots cfg ml doc with
          | .error e => "err " ++ e.name
          | .ok (outs, gst) =>
            "ok " ++ toString gst.cats.length ++ String.join (outs.map fun r => " || " ++ encSent r)
    | _, _ => "bad-op"
  | _ => "bad-op"

/-! ### `cli`: the whole program (Cli.mainText)

  cli <en|ja> <seen|-> <unary> <format> <piped 0|1> <root-cats> <penalty> <pruning> <nbest> <maxStep> <maxLength> <procs>
      <nlines> <line>* <ncats> <category text>* <M> { <n> <tags n*K> <deps n*(n+1)> <0|1 passes> [<passes n*K>] }*M -/

def pScores (K : Nat) : P Cli.Scores := fun ts => do
  let (n, ts) ← pNat ts
  let (tags, ts) ← pRows n K ts
  let (deps, ts) ← pRows n (n + 1) ts
  let (up, ts) ← pNat ts
  let (passes, ts) ← (if up != 0 then pRows n K ts else some ([], ts))
  pure ({ tags := tags, deps := deps, passes := passes.map (·.map (· != 0)) }, ts)

def fmtOfName : String → Option Cli.Fmt
  | "auto" => some .auto | "auto_extended" => some .autoExt | "conll" => some .conll
  | "ptb" => some .ptb | "deriv" => some .deriv | "ja" => some .ja
  | "prolog_en" => some .prologEn | "prolog_ja" => some .prologJa | "json" => some .json | "html" => some .html
  | "xml" => some .xml | "jigg_xml_en" => some .jiggEn | "jigg_xml_ja" => some .jiggJa | _ => none

def cliOp (seenOf : String → Option (Option (List (Cat × Cat)))) (unaryOf : String → Option (List (Cat × List Cat)))
    (ts : List String) : String :=
  match ts with
  | lang :: sn :: un :: fm :: rest =>
    match seenOf sn, unaryOf un, fmtOfName fm with
    | some seen, some table, some fmt =>
      match (do
        let (piped, ts) ← pNat rest
        let (rootCats, ts) ← pStr ts
        let (pen, ts) ← pInt ts
        let (pr, ts) ← pNat ts
        let (nb, ts) ← pNat ts
        let (ms, ts) ← pNat ts
        let (ml, ts) ← pNat ts
        let (procs, ts) ← pNat ts
        let (lines, ts) ← pList pStr ts
        let (tagCats, ts) ← pList pStr ts
        let (scores, ts) ← pList (pScores tagCats.length) ts
        if ts.isEmpty then pure (piped, rootCats, pen, pr, nb, ms, ml, procs, lines, tagCats, scores) else none) with
      | none => "bad-op"
      | some (piped, rootCats, pen, pr, nb, ms, ml, procs, lines, tagCats, scores) =>
        let G := grammarFor (lang == "en") seen table
        let o : Cli.Opts := { cfg := { penalty := pen, pruning := pr, nbest := nb, maxStep := ms }, maxLength := ml,
                              procs := procs, rootCats := rootCats, piped := piped != 0, format := fmt }
        encExcept encStr (Cli.mainText G o lines tagCats scores)
    | _, _, _ => "bad-op"
  | _ => "bad-op"

/-! ### `treescore`: the model score of a (real) tree, from the tree alone and the inputs

  treescore <cats> <penalty> <n> <tags n*K> <deps n*(n+1)> <tree> -/
/-- `numfmt k`: the three spellings of the float `k/64` the program prints (`{:.8f}`, `{:.5e}`, `repr`) -/
def numFmtOp (ts : List String) : String :=
  match pInt ts with
  | some (k, []) => "ok " ++ encStr (Cli.fmt8 k) ++ " " ++ encStr (Cli.fmt5e k) ++ " " ++ encStr (Print.jsonFloat k)
  | _ => "bad-op"

/-- the same without `repr` (whose shortest-round-trip digits equal the exact expansion only up to
    15 significant digits) -/
def numFmtFeOp (ts : List String) : String :=
  match pInt ts with
  | some (k, []) => "ok " ++ encStr (Cli.fmt8 k) ++ " " ++ encStr (Cli.fmt5e k)
  | _ => "bad-op"

def treeScoreOp (ts : List String) : String :=
  match (do
    let (cats, ts) ← pList pCat ts
    let (pen, ts) ← pInt ts
    let (n, ts) ← pNat ts
    let (tags, ts) ← pRows n cats.length ts
    let (deps, ts) ← pRows n (n + 1) ts
    let (t, ts) ← pTree ts
    if ts.isEmpty then pure (cats, pen, n, tags, deps, t) else none) with
  | none => "bad-op"
  | some (cats, pen, n, tags, deps, t) =>
    let s : Sent := { n := n, tags := tags, deps := deps, roots := [], passes := [] }
    let cfg : Cfg := { penalty := pen, pruning := 0, nbest := 1, maxStep := 0 }
    match TreeLevel.treeScore cats s cfg t with
    | some k => "ok " ++ toString k
    | none => "none"

end OpsLazy
end Depccg
