/-
  Model of `retrieve_tree` of depccg/parsing.pyx : the finaliser that turns the back-pointer
  structure of a finished item (a `Deriv` in the model) into a `Tree`, reading category objects
  from the category table and label / symbol / head direction from the rule cache row of the
  children's category ids at the item's rule id.
-/
import Depccg.Search
import Depccg.Tree

namespace Depccg
namespace GlueTree
open Search

/-- one entry of a cache row as the C++ stores it -/
structure CacheEntry where
  catId : Nat
  headLeft : Bool
  opString : Str
  opSymbol : Str
  deriving DecidableEq, Repr

structure Tables where
  cats : Nat → Option Cat                       -- the category table `categories_`
  bin : Nat → Nat → List CacheEntry             -- cache[(x, y)]
  un : Nat → List CacheEntry                    -- cache[(x, UINT_MAX)]

def dcatId : Deriv → Nat
  | .leaf _ c => c
  | .un c _ _ => c
  | .bin c _ _ _ _ => c

/-- `retrieve_tree(item, token_id, cache, kwargs)`; tokens are consumed left to right (the token
    cursor equals the leaf's position for licensed derivations) -/
def retrieve (T : Tables) (tokens : List Token) : Deriv → Except Err Tree
  | .leaf t c =>
    match T.cats c, tokens[t]? with
    | some cat, some tok => .ok (Tree.mkTerminal tok cat)
    | none, _ => .error .indexError
    | _, none => .error .indexError
  | .un c rid d =>
    match retrieve T tokens d with
    | .error e => .error e
    | .ok child =>
      match T.cats c, (T.un (dcatId d))[rid]? with
      | some cat, some e => .ok (.un cat e.opString e.opSymbol child)
      | none, _ => .error .indexError
      | _, none => .error .indexError
  | .bin c rid _ l r =>
    match retrieve T tokens l with
    | .error e => .error e
    | .ok tl =>
      match retrieve T tokens r with
      | .error e => .error e
      | .ok tr =>
        match T.cats c, (T.bin (dcatId l) (dcatId r))[rid]? with
        | some cat, some e => .ok (.bin cat e.opString e.opSymbol e.headLeft tl tr)
        | none, _ => .error .indexError
        | _, none => .error .indexError

/-- the id-level grammar the search sees through the cache -/
def grammarOf (T : Tables) : Grammar :=
  { bin := fun x y => (T.bin x y).map fun e => ⟨e.catId, e.headLeft⟩,
    un := fun x => (T.un x).map (·.catId) }

end GlueTree
end Depccg
