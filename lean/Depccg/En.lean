/-
  Model of depccg/grammar/en.py : the 13 English combinators in order, the seen-rule gate,
  the unary rules.  Mirrors the code as it is (e.g. `y ^ "NP\\NP"` with a *string* is always
  False, so that guard of `conjunction` never blocks).
-/
import Depccg.Unify

namespace Depccg
open Str Cat

/-- `CombinatorResult` -/
structure RuleRes where
  cat : Cat
  opString : Str
  opSymbol : Str
  headLeft : Bool
  deriving DecidableEq, Repr

namespace Pat
/-- pattern atoms `a b c d e f` -/
def a : Cat := .atom [97] (.un none)
def b : Cat := .atom [98] (.un none)
def c : Cat := .atom [99] (.un none)
def d : Cat := .atom [100] (.un none)
def e : Cat := .atom [101] (.un none)
def f : Cat := .atom [102] (.un none)
def fwd (l r : Cat) : Cat := .fn l cSlash r
def bwd (l r : Cat) : Cat := .fn l cBSlash r
def any (l r : Cat) : Cat := .fn l cBar r
end Pat

/-- `x.is_functor and x.left == x.right` -/
def isModifier : Cat → Bool
  | .fn l _ r => Cat.pyEq l r
  | _ => false

namespace En
open Unify

def asciiLetter (c : Nat) : Bool := (65 ≤ c && c ≤ 90) || (97 ≤ c && c ≤ 122)

/-- `_is_punct` ; `base[0]` raises IndexError on an empty base -/
def isPunct : Cat → Except Err Bool
  | .fn .. => .ok false
  | .atom b _ =>
    match b with
    | [] => .error .indexError
    | c0 :: _ => .ok (!(asciiLetter c0) || [lit "LRB", lit "RRB", lit "LQU", lit "RQU"].elem b)

/-- `_is_type_raised` -/
def isTypeRaised : Cat → Bool
  | .atom .. => false
  | .fn l _ r =>
    match r with
    | .fn rl _ _ => Cat.pyEq rl l
    | .atom .. => false

abbrev Comb := Cat → Cat → Except Err (Option RuleRes)

def mk (c : Cat) (os sym : String) : Except Err (Option RuleRes) :=
  .ok (some ⟨c, lit os, lit sym, true⟩)

def forwardApplication : Comb := fun x y =>
  match unify (Pat.fwd Pat.a Pat.b) Pat.b x y with
  | .error e => .error e
  | .ok none => .ok none
  | .ok (some σ) =>
    if isModifier x then mk y "fa" ">" else
    match σ.get [97] with
    | .ok a => mk a "fa" ">"
    | .error e => .error e

def backwardApplication : Comb := fun x y =>
  if Cat.pyEqStr x (lit "S[dcl]") && Cat.pyEqStr y (lit "S[em]\\S[em]") then mk x "ba" "<" else
  match unify Pat.b (Pat.bwd Pat.a Pat.b) x y with
  | .error e => .error e
  | .ok none => .ok none
  | .ok (some σ) =>
    if isModifier y then mk x "ba" "<" else
    match σ.get [97] with
    | .ok a => mk a "ba" "<"
    | .error e => .error e

def forwardComposition : Comb := fun x y =>
  match unify (Pat.fwd Pat.a Pat.b) (Pat.fwd Pat.b Pat.c) x y with
  | .error e => .error e
  | .ok none => .ok none
  | .ok (some σ) =>
    if isModifier x then mk y "fc" ">B" else
    match σ.get [97], σ.get [99] with
    | .ok a, .ok c => mk (.fn a cSlash c) "fc" ">B"
    | .error e, _ => .error e
    | _, .error e => .error e

def isNorNP (c : Cat) : Bool := c.str == lit "N" || c.str == lit "NP"

def backwardComposition : Comb := fun x y =>
  match unify (Pat.fwd Pat.b Pat.c) (Pat.bwd Pat.a Pat.b) x y with
  | .error e => .error e
  | .ok none => .ok none
  | .ok (some σ) =>
    match σ.get [98] with
    | .error e => .error e
    | .ok b =>
      if isNorNP b then .ok none else
      if isModifier y then mk x "bx" "<B" else
      match σ.get [97], σ.get [99] with
      | .ok a, .ok c => mk (.fn a cSlash c) "bx" "<B"
      | .error e, _ => .error e
      | _, .error e => .error e

/-- `y.functor(l, r)` = `Functor(l, y.slash, r)`; on an atom the attribute does not exist -/
def functorOf (y : Cat) (l r : Cat) : Except Err Cat :=
  match y with
  | .fn _ s _ => .ok (.fn l s r)
  | .atom .. => .error .attributeError

def generalizedForwardComposition : Comb := fun x y =>
  match unify (Pat.fwd Pat.a Pat.b) (Pat.any (Pat.fwd Pat.b Pat.c) Pat.d) x y with
  | .error e => .error e
  | .ok none => .ok none
  | .ok (some σ) =>
    if isModifier x then mk y "gfc" ">B" else
    match σ.get [97], σ.get [99], σ.get [100] with
    | .ok a, .ok c, .ok d =>
      match functorOf y (.fn a cSlash c) d with
      | .ok r => mk r "gfc" ">B"
      | .error e => .error e
    | .error e, _, _ => .error e
    | _, .error e, _ => .error e
    | _, _, .error e => .error e

def generalizedBackwardComposition : Comb := fun x y =>
  match unify (Pat.any (Pat.fwd Pat.b Pat.c) Pat.d) (Pat.fwd Pat.a Pat.b) x y with
  | .error e => .error e
  | .ok none => .ok none
  | .ok (some σ) =>
    match σ.get [98] with
    | .error e => .error e
    | .ok b =>
      if isNorNP b then .ok none else
      if isModifier y then mk x "gbx" "<B" else
      match σ.get [97], σ.get [99], σ.get [100] with
      | .ok a, .ok c, .ok d =>
        match functorOf x (.fn a cSlash c) d with
        | .ok r => mk r "gbx" "<B"
        | .error e => .error e
      | .error e, _, _ => .error e
      | _, .error e, _ => .error e
      | _, _, .error e => .error e

/-- `x in (",", ";", "conj")` etc. : comparison of a category with strings -/
def catInStrs (x : Cat) (ss : List Str) : Bool := ss.any fun s => Cat.pyEqStr x s

def conjunction : Comb := fun x y =>
  match isPunct y with
  | .error e => .error e
  | .ok py =>
    -- `not (y ^ "NP\\NP")` compares with a string: `^` is False, the guard is always True
    if !py && !(isTypeRaised y) && catInStrs x [lit ",", lit ";", lit "conj"] then
      mk (.fn y cBSlash y) "conj" "<Φ>"
    else .ok none

def conjunction2 : Comb := fun x y =>
  if Cat.pyEqStr x (lit "conj") && Cat.pyEqStr y (lit "NP\\NP") then mk y "conj" "<Φ>" else .ok none

def removePunctuation1 : Comb := fun x y =>
  match isPunct x with
  | .error e => .error e
  | .ok true => mk y "lp" "<lp>"
  | .ok false => .ok none

def removePunctuation2 : Comb := fun x y =>
  match isPunct y with
  | .error e => .error e
  | .ok true => mk x "rp" "<rp>"
  | .ok false => .ok none

def removePunctuationLeft : Comb := fun x y =>
  if catInStrs x [lit "LQU", lit "LRB"] then mk (.fn y cBSlash y) "lp" "<lp>" else .ok none

def sNP : Cat := .fn (.atom (lit "S") (.un none)) cBSlash (.atom (lit "NP") (.un none))

def commaVpToAdv : Comb := fun x y =>
  if Cat.pyEqStr x (lit ",") && catInStrs y [lit "S[ng]\\NP", lit "S[pss]\\NP"] then
    mk (.fn sNP cBSlash sNP) "lp" "<*>"
  else .ok none

def parentheticalDirectSpeech : Comb := fun x y =>
  if Cat.pyEqStr x (lit ",") && Cat.pyEqStr y (lit "S[dcl]/S[dcl]") then
    mk (.fn sNP cSlash sNP) "lp" "<*>"
  else .ok none

def combinators : List Comb :=
  [forwardApplication, backwardApplication, forwardComposition, backwardComposition,
   generalizedForwardComposition, generalizedBackwardComposition, conjunction, conjunction2,
   removePunctuation1, removePunctuation2, removePunctuationLeft, commaVpToAdv,
   parentheticalDirectSpeech]

/-- run the combinators in order, collecting results; the first exception propagates -/
def applyAll : List Comb → Cat → Cat → Except Err (List RuleRes)
  | [], _, _ => .ok []
  | c :: cs, x, y =>
    match c x y with
    | .error e => .error e
    | .ok r =>
      match applyAll cs x y with
      | .error e => .error e
      | .ok rs => .ok (match r with | some v => v :: rs | none => rs)

/-- `apply_binary_rules(x, y, seen_rules)`; `seen = none` is Python's `None` -/
def applyBinary (seen : Option (List (Cat × Cat))) (x y : Cat) : Except Err (List RuleRes) :=
  match Cat.clear [lit "nb"] x, Cat.clear [lit "nb"] y,
        Cat.clear [lit "X", lit "nb"] x, Cat.clear [lit "X", lit "nb"] y with
  | .ok kx, .ok ky, .ok sx, .ok sy =>
    let go := match seen with
      | none => true
      | some S => S.any fun p => Cat.pyEq p.1 sx && Cat.pyEq p.2 sy
    if go then applyAll combinators kx ky else .ok []
  | .error e, _, _, _ => .error e
  | _, .error e, _, _ => .error e
  | _, _, .error e, _ => .error e
  | _, _, _, .error e => .error e

/-- `apply_unary_rules(x, unary_rules)`; the table is the dict in insertion order -/
def applyUnary (table : List (Cat × List Cat)) (x : Cat) : List RuleRes :=
  match table.find? fun p => Cat.pyEq p.1 x with
  | none => []
  | some (_, targets) =>
    targets.map fun r =>
      let typeRaised := match x with
        | .atom b _ => (b == lit "NP" || b == lit "PP") && isTypeRaised r
        | .fn .. => false
      ⟨r, if typeRaised then lit "tr" else lit "lex", lit "<un>", true⟩

end En
end Depccg
