/-
  Model of depccg/tree.py and depccg/types.py : `Token` (a dict with insertion order) and `Tree`;
  `guess_combinator_by_triplet` of depccg/grammar/__init__.py.
-/
import Depccg.Ja

namespace Depccg
open Str

/-- `Token(dict)` : ordered key/value pairs, keys unique -/
abbrev Token := List (Str × Str)

namespace Token
def get? (t : Token) (k : Str) : Option Str := Dict.get? t k
/-- `token.get(key, default)` -/
def getD (t : Token) (k : Str) (d : Str) : Str := (Dict.get? t k).getD d
/-- `token[key]` / `token.key` -/
def get (t : Token) (k : Str) : Except Err Str :=
  match Dict.get? t k with
  | some v => .ok v
  | none => .error .keyError
/-- `Token.of_word(word)` -/
def ofWord (w : Str) : Token :=
  [(lit "word", w), (lit "lemma", lit "XX"), (lit "pos", lit "XX"), (lit "entity", lit "XX"), (lit "chunk", lit "XX")]
end Token

inductive Tree where
  | leaf (cat : Cat) (tok : Token) (opS opY : Str)
  | un (cat : Cat) (opS opY : Str) (child : Tree)
  | bin (cat : Cat) (opS opY : Str) (headLeft : Bool) (l r : Tree)
  deriving DecidableEq, Repr, Inhabited

namespace Tree

def cat : Tree → Cat
  | leaf c .. => c
  | un c .. => c
  | bin c .. => c

def opS : Tree → Str
  | leaf _ _ s _ => s
  | un _ s _ _ => s
  | bin _ s _ _ _ _ => s

def opY : Tree → Str
  | leaf _ _ _ y => y
  | un _ _ y _ => y
  | bin _ _ y _ _ _ => y

/-- `head_is_left` (True on leaves and unary nodes) -/
def headLeft : Tree → Bool
  | bin _ _ _ h _ _ => h
  | _ => true

/-- `Tree.make_terminal(token, cat)` -/
def mkTerminal (tok : Token) (c : Cat) : Tree := leaf c tok (lit "lex") (lit "<lex>")
/-- `Tree.make_unary(cat, child)` with the default labels -/
def mkUnary (c : Cat) (child : Tree) : Tree := un c (lit "lex") (lit "<un>") child

def leaves : Tree → List Tree
  | leaf c t s y => [leaf c t s y]
  | un _ _ _ ch => leaves ch
  | bin _ _ _ _ l r => leaves l ++ leaves r

def tokens : Tree → List Token
  | leaf _ t _ _ => [t]
  | un _ _ _ ch => tokens ch
  | bin _ _ _ _ l r => tokens l ++ tokens r

def numLeaves : Tree → Nat
  | leaf .. => 1
  | un _ _ _ ch => numLeaves ch
  | bin _ _ _ _ l r => numLeaves l + numLeaves r

/-- `tree.word` : the words of the leaves joined by blanks; KeyError when a token has no `word` -/
def words : List Token → Except Err (List Str)
  | [] => .ok []
  | t :: ts =>
    match Token.get t (lit "word"), words ts with
    | .ok w, .ok ws => .ok (w :: ws)
    | .error e, _ => .error e
    | _, .error e => .error e

def word (t : Tree) : Except Err Str :=
  match words (tokens t) with
  | .ok ws => .ok (joinSep cSpace ws)
  | .error e => .error e

end Tree

/-- the language switch `get_global_language()` -/
inductive Lang where
  | en | ja
  deriving DecidableEq, Repr

def binaryRules (lang : Lang) (x y : Cat) : Except Err (List RuleRes) :=
  match lang with
  | .en => En.applyBinary none x y
  | .ja => Ja.applyBinary none x y

def unkRule (target : Cat) : RuleRes := ⟨target, lit "unk", lit "<unk>", true⟩

/-- `guess_combinator_by_triplet(binary_rules, target, x, y)` : the first result deriving the
    target category, else "unk" -/
def guess (lang : Lang) (target x y : Cat) : Except Err RuleRes :=
  match binaryRules lang x y with
  | .error e => .error e
  | .ok rs =>
    match rs.find? fun r => Cat.pyEq r.cat target with
    | some r => .ok r
    | none => .ok (unkRule target)

end Depccg
