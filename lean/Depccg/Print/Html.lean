/-
  Model of depccg/printer/html.py : `_mathml_cat`, `_mathml_subtree`, `to_mathml`,
  and an independent reader of the MathML (`readMathml`) used to state that the html format
  encodes the derivation (C07).
-/
import Depccg.Print.More

namespace Depccg
open Str
namespace Print

/-- `html.escape(s)` (quote=True) -/
def htmlEscape : Str → Str
  | [] => []
  | c :: cs =>
    (if c == 38 then lit "&amp;" else if c == 60 then lit "&lt;" else if c == 62 then lit "&gt;"
     else if c == 34 then lit "&quot;" else if c == 39 then lit "&#x27;" else [c]) ++ htmlEscape cs

def miRed : Str := lit "<mi mathvariant='italic'\n  mathsize='1.0' mathcolor='Red'>"
def miPurple : Str := lit "<mi mathvariant='italic'\n    mathsize='0.8' mathcolor='Purple'>"

/-- one (category part, feature group) pair of `_mathml_cat` -/
def mathmlSeg (p : Str × Str) : Str :=
  let catM := miRed ++ htmlEscape p.1 ++ lit "</mi>"
  if p.2.isEmpty then catM
  else lit "<msub>" ++ catM ++ lit "\n  <mrow>\n  " ++ miPurple ++ htmlEscape p.2 ++ lit "</mi>\n  </mrow>\n</msub>"

/-- `_mathml_cat(cat)` -/
def mathmlCatText (s : Str) : Str := (mathmlCat s).flatMap mathmlSeg

def termOpen : Str := lit "<mrow>\n  <mfrac linethickness='2px'>\n    <mtext mathsize='1.0' mathcolor='Black'>"
def nontermOpen : Str := lit "<mrow>\n  <mfrac  linethickness='2px'>\n    <mrow>"
def midStyle : Str := lit "\n    <mstyle mathcolor='Red'>"
def afterStyle : Str := lit "</mstyle>\n  </mfrac>\n  <mtext mathsize='0.8' mathcolor='Black'>"
def subtreeClose : Str := lit "</mtext>\n</mrow>\n"

/-- `_MATHML_SUBTREE_TERMINAL.format(html.escape(word), cat_str)` -/
def mathmlTerminal (word : Str) (catText : Str) : Str :=
  termOpen ++ htmlEscape word ++ lit "</mtext>" ++ midStyle ++ mathmlCatText catText ++ afterStyle
    ++ lit "lex" ++ subtreeClose

/-- `_MATHML_SUBTREE_NONTERMINAL.format(children, cat_str, html.escape(op_string), '')` -/
def mathmlNonterminal (children : Str) (catText : Str) (op : Str) : Str :=
  nontermOpen ++ children ++ lit "</mrow>" ++ midStyle ++ mathmlCatText catText ++ afterStyle
    ++ htmlEscape op ++ subtreeClose

/-- `_mathml_subtree(tree)`; `tree.word` of a leaf raises KeyError when the token has no word -/
def mathmlSubtree : Tree → Except Err Str
  | .leaf c tok _ _ =>
    match Token.get tok (lit "word") with
    | .ok w => .ok (mathmlTerminal w (Cat.str c))
    | .error e => .error e
  | .un c opS _ ch =>
    match mathmlSubtree ch with
    | .ok s => .ok (mathmlNonterminal s (Cat.str c) opS)
    | .error e => .error e
  | .bin c opS _ _ l r =>
    match mathmlSubtree l with
    | .error e => .error e
    | .ok sl =>
      match mathmlSubtree r with
      | .error e => .error e
      | .ok sr => .ok (mathmlNonterminal (sl ++ sr) (Cat.str c) opS)

def mathOpen : Str := lit "<math xmlns=\"http://www.w3.org/1998/Math/MathML\">"

/-- one tree of a sentence: the optional score line (`{prob:.5e}` is a parameter, float formatting
    is not modelled) and the `<math>` element -/
def mathmlEntry (p : Tree × Option Str) : Except Err Str :=
  match mathmlSubtree p.1 with
  | .error e => .error e
  | .ok s =>
    .ok ((match p.2 with | some pr => lit "<p>Log prob=" ++ pr ++ lit "</p>" | none => []) ++ mathOpen ++ s ++ lit "</math>")

def mathmlSentence (p : Nat × List (Tree × Option Str)) : Except Err Str :=
  match p.2 with
  | [] => .error .indexError
  | (t0, _) :: _ =>
    match Tree.word t0 with
    | .error e => .error e
    | .ok ws =>
      match catExcept mathmlEntry p.2 with
      | .error e => .error e
      | .ok body => .ok (lit "<p>ID=" ++ Str.ofNat p.1 ++ lit ": " ++ ws ++ lit "</p>" ++ body)

def mathmlHead : Str := lit "<!doctype html>\n<html lang='en'>\n<head>\n  <meta charset='UTF-8'>\n  <style>\n    body {\n      font-size: 1em;\n    }\n  </style>\n  <script type=\"text/javascript\"\n     src=\"http://cdn.mathjax.org/mathjax/latest/MathJax.js?config=TeX-AMS-MML_HTMLorMML\">\n  </script>\n</head>\n<body>\n  "
def mathmlTail : Str := lit "\n</body>\n</html>\n"

/-- the numbering of `enumerate(nbest_trees, 1)` -/
def numberFrom {α : Type} : Nat → List α → List (Nat × α)
  | _, [] => []
  | i, x :: xs => (i, x) :: numberFrom (i + 1) xs

/-- `to_mathml(nbest_trees)` -/
def toMathml (batch : List (List (Tree × Option Str))) : Except Err Str :=
  match catExcept mathmlSentence (numberFrom 1 batch) with
  | .error e => .error e
  | .ok body => .ok (mathmlHead ++ body ++ mathmlTail)

/-! ### an independent reader of the MathML -/

/-- what a reader of the html sees of a derivation: nesting, words, rule labels and the
    (part, feature) segments of every category -/
inductive HSkel where
  | leaf (word : Str) (cat : List (Str × Str))
  | node (op : Str) (cat : List (Str × Str)) (children : List HSkel)
  deriving Repr, Inhabited

inductive HTok where
  | tag (s : Str)
  | text (s : Str)
  deriving DecidableEq, Repr

/-- split at `<` … `>` -/
def htmlTokens : Nat → Str → List HTok
  | 0, _ => []
  | _, [] => []
  | fuel + 1, c :: cs =>
    if c == 60 then
      HTok.tag (cs.takeWhile (· != 62)) :: htmlTokens fuel ((cs.dropWhile (· != 62)).drop 1)
    else
      HTok.text ((c :: cs).takeWhile (· != 60)) :: htmlTokens fuel ((c :: cs).dropWhile (· != 60))

/-- the entity starting after an `&` -/
def unescapeEntity (s : Str) : Option (Nat × Str) :=
  if startsWith s (lit "amp;") then some (38, s.drop 4)
  else if startsWith s (lit "lt;") then some (60, s.drop 3)
  else if startsWith s (lit "gt;") then some (62, s.drop 3)
  else if startsWith s (lit "quot;") then some (34, s.drop 5)
  else if startsWith s (lit "#x27;") then some (39, s.drop 5)
  else none

/-- inverse of `htmlEscape` on its image -/
def htmlUnescape : Nat → Str → Str
  | 0, s => s
  | _, [] => []
  | fuel + 1, c :: cs =>
    if c == 38 then
      match unescapeEntity cs with
      | some (ch, rest) => ch :: htmlUnescape fuel rest
      | none => c :: htmlUnescape fuel cs
    else c :: htmlUnescape fuel cs

def unesc (s : Str) : Str := htmlUnescape (s.length + 1) s

def tagMiRed : Str := lit "mi mathvariant='italic'\n  mathsize='1.0' mathcolor='Red'"
def tagMiPurple : Str := lit "mi mathvariant='italic'\n    mathsize='0.8' mathcolor='Purple'"

/-- the text between an opening tag just consumed and the closing tag `close`
    (absent when the text is empty) -/
def readText (close : Str) : List HTok → Option (Str × List HTok)
  | HTok.text t :: HTok.tag c :: rest => if c == close then some (unesc t, rest) else none
  | HTok.tag c :: rest => if c == close then some ([], rest) else none
  | _ => none

/-- one `<mi …Red>part</mi>` -/
def readMiRed : List HTok → Option (Str × List HTok)
  | HTok.tag t :: rest => if t == tagMiRed then readText (lit "/mi") rest else none
  | _ => none

/-- category segments up to `</mstyle>` -/
def readSegs : Nat → List HTok → Option (List (Str × Str) × List HTok)
  | 0, _ => none
  | fuel + 1, toks =>
    match toks with
    | HTok.tag t :: rest =>
      if t == lit "/mstyle" then some ([], rest)
      else if t == lit "msub" then
        match readMiRed rest with
        | some (part, HTok.text _ :: HTok.tag r :: HTok.text _ :: HTok.tag p :: rest2) =>
          if r == lit "mrow" && p == tagMiPurple then
            match readText (lit "/mi") rest2 with
            | some (feat, HTok.text _ :: HTok.tag r2 :: HTok.text _ :: HTok.tag m2 :: rest3) =>
              if r2 == lit "/mrow" && m2 == lit "/msub" then
                match readSegs fuel rest3 with
                | some (segs, rest4) => some ((part, feat) :: segs, rest4)
                | none => none
              else none
            | _ => none
          else none
        | _ => none
      else
        match readMiRed toks with
        | some (part, rest2) =>
          match readSegs fuel rest2 with
          | some (segs, rest3) => some ((part, []) :: segs, rest3)
          | none => none
        | none => none
    | _ => none

/-- after the category: `\n  </mfrac>\n  <mtext …>label</mtext>\n</mrow>\n` -/
def readLabel : List HTok → Option (Str × List HTok)
  | HTok.text _ :: HTok.tag f :: HTok.text _ :: HTok.tag m :: rest =>
    if f == lit "/mfrac" && m == lit "mtext mathsize='0.8' mathcolor='Black'" then
      match readText (lit "/mtext") rest with
      | some (lab, HTok.text _ :: HTok.tag r :: HTok.text _ :: rest2) =>
        if r == lit "/mrow" then some (lab, rest2) else none
      | _ => none
    else none
  | _ => none

mutual
/-- one `<mrow>…</mrow>\n` subtree -/
def readSub : Nat → List HTok → Option (HSkel × List HTok)
  | 0, _ => none
  | fuel + 1, toks =>
    match toks with
    | HTok.tag r :: HTok.text _ :: HTok.tag f :: HTok.text _ :: HTok.tag m :: rest =>
      if r != lit "mrow" then none
      else if f == lit "mfrac linethickness='2px'" then
        -- terminal
        if m != lit "mtext mathsize='1.0' mathcolor='Black'" then none else
        match readText (lit "/mtext") rest with
        | some (word, HTok.text _ :: HTok.tag st :: rest2) =>
          if st != lit "mstyle mathcolor='Red'" then none else
          match readSegs (rest2.length + 1) rest2 with
          | some (segs, rest3) =>
            match readLabel rest3 with
            | some (lab, rest4) => if lab == lit "lex" then some (HSkel.leaf word segs, rest4) else none
            | none => none
          | none => none
        | _ => none
      else if f == lit "mfrac  linethickness='2px'" then
        if m != lit "mrow" then none else
        match readSubs fuel rest with
        | some (children, HTok.text _ :: HTok.tag st :: rest2) =>
          if st != lit "mstyle mathcolor='Red'" then none else
          match readSegs (rest2.length + 1) rest2 with
          | some (segs, rest3) =>
            match readLabel rest3 with
            | some (lab, rest4) => some (HSkel.node lab segs children, rest4)
            | none => none
          | none => none
        | _ => none
      else none
    | _ => none

/-- the children up to the closing `</mrow>` of the numerator -/
def readSubs : Nat → List HTok → Option (List HSkel × List HTok)
  | 0, _ => none
  | fuel + 1, toks =>
    match toks with
    | HTok.tag t :: rest =>
      if t == lit "/mrow" then some ([], rest)
      else
        match readSub fuel toks with
        | some (c, rest2) =>
          match readSubs fuel rest2 with
          | some (cs, rest3) => some (c :: cs, rest3)
          | none => none
        | none => none
    | _ => none
end

/-- read one subtree text completely -/
def readMathml (s : Str) : Option HSkel :=
  let toks := htmlTokens (s.length + 1) s
  match readSub (toks.length + 1) toks with
  | some (sk, []) => some sk
  | _ => none

/-- what the tree says -/
def skelOf : Tree → Except Err HSkel
  | .leaf c tok _ _ =>
    match Token.get tok (lit "word") with
    | .ok w => .ok (HSkel.leaf w (mathmlCat (Cat.str c)))
    | .error e => .error e
  | .un c opS _ ch =>
    match skelOf ch with
    | .ok s => .ok (HSkel.node opS (mathmlCat (Cat.str c)) [s])
    | .error e => .error e
  | .bin c opS _ _ l r =>
    match skelOf l with
    | .error e => .error e
    | .ok sl =>
      match skelOf r with
      | .error e => .error e
      | .ok sr => .ok (HSkel.node opS (mathmlCat (Cat.str c)) [sl, sr])

end Print
end Depccg
