/-
  `--format json`, to the character: depccg/printer/my_json.py `json_of`, the `json` branch of
  depccg/printer/__init__.py `to_string`, and the part of CPython's `json.dumps(obj, indent=4)` it
  uses (objects, arrays, strings with `ensure_ascii`, floats through `float.__repr__`).

      results = {sentence number: [json_of(tree) + {'log_prob': score}, …], …}
      json.dumps(results, indent=4)

  Scores are `k/64` (exact binary fractions with at most six decimals). `repr` prints the shortest
  decimal text that reads back as the same double; for a value whose exact expansion has at most 15
  significant digits (`|k| * 15625 < 10^15`, i.e. scores below 10^9 in magnitude — log-probability
  sums are nowhere near) that text is the exact expansion, which is what `jsonFloat` computes;
  beyond that `repr` may drop digits (observed: 13448972401702.3125 prints as 13448972401702.312)
  and the model does not claim the spelling. The failure placeholder's `-inf` prints as `-Infinity`.
-/
import Depccg.Print.More

namespace Depccg
namespace Print
open Str

/-! ### JSON values and `json.dumps(·, indent=4)` -/

inductive JVal where
  | str (s : Str)
  | num (k : Int)                      -- the float `k/64`
  | negInf                             -- `-float('inf')`
  | arr (items : List JVal)
  | obj (members : List (Str × JVal))
  deriving Repr, Inhabited

def hexDigit (n : Nat) : Nat := if n < 10 then 48 + n else 87 + n      -- lower case

def hex4 (n : Nat) : Str :=
  [hexDigit (n / 4096 % 16), hexDigit (n / 256 % 16), hexDigit (n / 16 % 16), hexDigit (n % 16)]

/-- `py_encode_basestring_ascii`: everything outside `' '..'~'`, `"` and `\` is escaped; characters
    beyond the basic plane become a surrogate pair -/
def jsonEscChar (c : Nat) : Str :=
  if c = 34 then [92, 34]
  else if c = 92 then [92, 92]
  else if c = 10 then [92, 110]
  else if c = 13 then [92, 114]
  else if c = 9 then [92, 116]
  else if c = 8 then [92, 98]
  else if c = 12 then [92, 102]
  else if 32 ≤ c ∧ c ≤ 126 then [c]
  else if c < 65536 then [92, 117] ++ hex4 c
  else
    let v := c - 65536
    [92, 117] ++ hex4 (55296 + v / 1024 % 1024) ++ [92, 117] ++ hex4 (56320 + v % 1024)

def jsonEsc : Str → Str
  | [] => []
  | c :: cs => jsonEscChar c ++ jsonEsc cs

def jsonStr (s : Str) : Str := [34] ++ jsonEsc s ++ [34]

/-- drop trailing `0` digits -/
def stripZeros (s : Str) : Str := (s.reverse.dropWhile (· == 48)).reverse

/-- `repr(k / 64)`: the exact decimal expansion; `x.0` for whole numbers -/
def jsonFloat (k : Int) : Str :=
  let a := k.natAbs
  let frac := stripZeros (List.replicate (6 - (Str.ofNat ((a % 64) * 15625)).length) 48 ++ Str.ofNat ((a % 64) * 15625))
  (if k < 0 then [45] else []) ++ Str.ofNat (a / 64) ++ [46] ++ (if frac = [] then [48] else frac)

def newlineIndent (ind : Nat) : Str := 10 :: List.replicate ind cSpace

mutual
/-- `json.dumps(v, indent=4)` at nesting depth `ind / 4` -/
def JVal.render (ind : Nat) : JVal → Str
  | .str s => jsonStr s
  | .num k => jsonFloat k
  | .negInf => lit "-Infinity"
  | .arr [] => [91, 93]
  | .arr (x :: xs) =>
    [91] ++ newlineIndent (ind + 4) ++ JVal.render (ind + 4) x ++ renderItems (ind + 4) xs ++ newlineIndent ind ++ [93]
  | .obj [] => [123, 125]
  | .obj ((k, v) :: ms) =>
    [123] ++ newlineIndent (ind + 4) ++ jsonStr k ++ [58, 32] ++ JVal.render (ind + 4) v ++ renderMembers (ind + 4) ms
      ++ newlineIndent ind ++ [125]

/-- the further items of an array, each after `,` newline indent -/
def renderItems (ind : Nat) : List JVal → Str
  | [] => []
  | x :: xs => [44] ++ newlineIndent ind ++ JVal.render ind x ++ renderItems ind xs

/-- the further members of an object -/
def renderMembers (ind : Nat) : List (Str × JVal) → Str
  | [] => []
  | (k, v) :: ms => [44] ++ newlineIndent ind ++ jsonStr k ++ [58, 32] ++ JVal.render ind v ++ renderMembers ind ms
end

/-! ### `json_of` and the `json` branch of `to_string` -/

/-- `d[key] = value` on an ordered dict -/
def setMember (ms : List (Str × JVal)) (k : Str) (v : JVal) : List (Str × JVal) :=
  match ms with
  | [] => [(k, v)]
  | (k', v') :: rest => if k' = k then (k, v) :: rest else (k', v') :: setMember rest k v

/-- `json_of(tree)` as the members of the dict it returns -/
def jsonMembers : Tree → List (Str × JVal)
  | .leaf c tok _ _ => setMember (tok.map fun (k, v) => (k, JVal.str v)) (lit "cat") (.str c.str)
  | .un c s _ ch => [(lit "type", .str s), (lit "cat", .str c.str), (lit "children", .arr [.obj (jsonMembers ch)])]
  | .bin c s _ _ l r =>
    [(lit "type", .str s), (lit "cat", .str c.str), (lit "children", .arr [.obj (jsonMembers l), .obj (jsonMembers r)])]

/-- a score: `some k` is `k/64`, `none` the placeholder's `-inf` -/
def scoreVal : Option Int → JVal
  | some k => .num k
  | none => .negInf

/-- one entry of a sentence's list: `tree_dict['log_prob'] = log_prob` -/
def jsonEntry (p : Tree × Option Int) : JVal := .obj (setMember (jsonMembers p.1) (lit "log_prob") (scoreVal p.2))

def jsonSentences : Nat → List (List (Tree × Option Int)) → List (Str × JVal)
  | _, [] => []
  | i, ts :: rest => (Str.ofNat i, JVal.arr (ts.map jsonEntry)) :: jsonSentences (i + 1) rest

/-- the value handed to `json.dumps` -/
def jsonValue (nbest : List (List (Tree × Option Int))) : JVal := .obj (jsonSentences 1 nbest)

/-- `to_string(nbest_trees, format='json')` -/
def jsonText (nbest : List (List (Tree × Option Int))) : Str := (jsonValue nbest).render 0

end Print
end Depccg
