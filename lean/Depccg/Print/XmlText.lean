/-
  `--format xml` and `--format jigg_xml`, to the character: the element trees of
  `Print/Xml.lean` (`xmlOf`, `jiggOf`) as generic elements, and the part of lxml / libxml2 that
  `etree.tostring(node, encoding='utf-8', pretty_print=True).decode('utf-8')` uses for documents
  made of elements and attributes only (no text nodes): two blanks of indentation per level, one
  element per line, `<tag …/>` for an element without children, attribute values with `& < > "`
  as entities and tab / newline / carriage return as character references, everything else raw
  (the output is UTF-8). `element.set(key, value)` rejects values that are not XML text (control
  characters other than tab, newline, carriage return; U+FFFE, U+FFFF; surrogates) with a
  `ValueError` while the document is being built, so one such value fails the whole call.
  Attribute *names* come from the token's keys and are not validated here (the annotators' keys —
  word, lemma, pos, entity, chunk, … — are XML names).
-/
import Depccg.Print.Xml
import Depccg.Print.Json

namespace Depccg
namespace Xml
open Str Print

inductive Elem where
  | mk (tag : Str) (attrs : Attrs) (kids : List Elem)
  deriving Repr, Inhabited

/-- what `element.set` accepts in a value -/
def xmlCharOk (c : Nat) : Bool :=
  (32 ≤ c || c == 9 || c == 10 || c == 13) && !(55296 ≤ c && c ≤ 57343) && c != 65534 && c != 65535

def xmlStrOk (s : Str) : Bool := s.all xmlCharOk

/-- libxml2's escaping of an attribute value in UTF-8 output -/
def escAttrChar (c : Nat) : Str :=
  if c = 38 then lit "&amp;"
  else if c = 60 then lit "&lt;"
  else if c = 62 then lit "&gt;"
  else if c = 34 then lit "&quot;"
  else if c = 9 then lit "&#9;"
  else if c = 10 then lit "&#10;"
  else if c = 13 then lit "&#13;"
  else [c]

def escAttr : Str → Str
  | [] => []
  | c :: cs => escAttrChar c ++ escAttr cs

def renderAttrs : Attrs → Str
  | [] => []
  | (k, v) :: rest => [cSpace] ++ k ++ [cEq, 34] ++ escAttr v ++ [34] ++ renderAttrs rest

def indent (n : Nat) : Str := List.replicate n cSpace

mutual
/-- one element and everything below it, each element on its own line -/
def Elem.render (ind : Nat) : Elem → Str
  | .mk tag attrs [] => indent ind ++ [cLt] ++ tag ++ renderAttrs attrs ++ [cSlash, cGt, 10]
  | .mk tag attrs (k :: ks) =>
    indent ind ++ [cLt] ++ tag ++ renderAttrs attrs ++ [cGt, 10] ++ Elem.render (ind + 2) k ++ renderKids (ind + 2) ks
      ++ indent ind ++ [cLt, cSlash] ++ tag ++ [cGt, 10]
def renderKids (ind : Nat) : List Elem → Str
  | [] => []
  | k :: ks => Elem.render ind k ++ renderKids ind ks
end

mutual
def Elem.valid : Elem → Bool
  | .mk _ attrs kids => attrs.all (fun kv => xmlStrOk kv.2) && validKids kids
def validKids : List Elem → Bool
  | [] => true
  | k :: ks => Elem.valid k && validKids ks
end

/-- building the document and serialising it -/
def docText (e : Elem) : Except Err Str := if e.valid then .ok (e.render 0) else .error .valueError

/-! ### C&C XML -/

def elemOfXTree : XTree → Elem
  | .lf a => .mk (lit "lf") a []
  | .rule1 a ch => .mk (lit "rule") a [elemOfXTree ch]
  | .rule2 a l r => .mk (lit "rule") a [elemOfXTree l, elemOfXTree r]

def elemOfCcg (c : CcgElem) : Elem :=
  .mk (lit "ccg") [(lit "sentence", Str.ofNat c.sentence), (lit "id", Str.ofNat c.id)] [elemOfXTree c.tree]

def xmlDoc (batch : List (List Tree)) : Elem := .mk (lit "candc") [] ((xmlOf batch).map elemOfCcg)

/-- `to_string(nbest_trees, format='xml')` -/
def xmlText (batch : List (List Tree)) : Except Err Str := docText (xmlDoc batch)

/-! ### Jigg XML -/

/-- `str(score)`: `repr` of the float (`k/64`: see `Print.jsonFloat` for the range), `-inf` for
    the failure placeholder -/
def scoreAttr : Option Int → Str
  | some k => jsonFloat k
  | none => lit "-inf"

/-- `res.set('score', str(score))`, after `id` and `root` -/
def withScores : List JCcg → List (Option Int) → List JCcg
  | c :: cs, s :: ss => { c with attrs := setAttr c.attrs (lit "score") (scoreAttr s) } :: withScores cs ss
  | cs, _ => cs

def withScoresAll : List JSentence → List (List (Option Int)) → List JSentence
  | s :: ss, sc :: scs => { s with ccgs := withScores s.ccgs sc } :: withScoresAll ss scs
  | ss, _ => ss

def elemOfSentence (s : JSentence) : Elem :=
  .mk (lit "sentence") []
    (.mk (lit "tokens") [] (s.tokens.map fun t => .mk (lit "token") t []) ::
      s.ccgs.map fun c => .mk (lit "ccg") c.attrs (c.spans.map fun sp => .mk (lit "span") sp []))

def jiggDoc (ss : List JSentence) : Elem :=
  .mk (lit "root") [] [.mk (lit "document") [] [.mk (lit "sentences") [] (ss.map elemOfSentence)]]

/-- `to_string(nbest_trees, format='jigg_xml')`; `useSymbol` under the Japanese program -/
def jiggText (useSymbol : Bool) (batch : List (List (Tree × Option Int))) : Except Err Str :=
  match jiggOf useSymbol (batch.map fun ts => ts.map fun p => p.1) with
  | .error e => .error e
  | .ok ss => docText (jiggDoc (withScoresAll ss (batch.map fun ts => ts.map fun p => p.2)))

end Xml
end Depccg
