/-
  Models of the XML printers and readers, at the level of the abstract document (element,
  ordered attributes, children); lxml's parsing / serialisation is trusted:
    depccg/printer/xml.py (C&C XML), depccg/printer/jigg_xml.py (Jigg XML),
    `read_xml` / `read_jigg_xml` of depccg/tools/reader.py,
    `build_ccg_tree` of semantics/ccg2lambda/ccg2lambda_tools.py,
    `normalize_token` of semantics/ccg2lambda/normalization.py.
-/
import Depccg.Tree

namespace Depccg
open Str

abbrev Attrs := List (Str × Str)

namespace Xml

/-- `element.set(k, v)` : overwrite in place or append -/
def setAttr (a : Attrs) (k v : Str) : Attrs := Dict.set a k v

def getAttr (a : Attrs) (k : Str) : Except Err Str :=
  match Dict.get? a k with
  | some v => .ok v
  | none => .error .keyError

/-! ### C&C XML -/

/-- the element tree under one `<ccg>` : `<lf …/>` or `<rule …> … </rule>` -/
inductive XTree where
  | lf (attrs : Attrs)
  | rule1 (attrs : Attrs) (child : XTree)
  | rule2 (attrs : Attrs) (l r : XTree)
  deriving DecidableEq, Repr

/-- `_process_tree` : `tokens.pop(0)` numbers the leaves from 0 -/
def xmlTree : Tree → Nat → XTree × Nat
  | .leaf c tok _ _, start =>
    let base : Attrs := [(lit "start", Str.ofNat start), (lit "span", lit "1"), (lit "cat", c.str)]
    (.lf (tok.foldl (fun acc kv => setAttr acc kv.1 kv.2) base), start + 1)
  | .un c s _ ch, start =>
    let (x, n) := xmlTree ch start
    (.rule1 [(lit "type", s), (lit "cat", c.str)] x, n)
  | .bin c s _ _ l r, start =>
    let (x, n1) := xmlTree l start
    let (y, n2) := xmlTree r n1
    (.rule2 [(lit "type", s), (lit "cat", c.str)] x y, n2)

structure CcgElem where
  sentence : Nat
  id : Nat
  tree : XTree
  deriving Repr

/-- `xml_of(nbest_trees)` : sentences and trees are numbered from 1 -/
def xmlOfAux : List (List Tree) → Nat → List CcgElem
  | [], _ => []
  | trees :: rest, si =>
    (trees.zipIdx.map fun (t, ti) => ⟨si, ti + 1, (xmlTree t 0).1⟩) ++ xmlOfAux rest (si + 1)

def xmlOf (batch : List (List Tree)) : List CcgElem := xmlOfAux batch 1

/-- `read_xml` on one `<ccg>` child; returns the tree and the tokens in order -/
def readXTree (lang : Lang) : XTree → Except Err (Tree × List Token)
  | .lf a =>
    match getAttr a (lit "cat") with
    | .error e => .error e
    | .ok ct =>
      match Cat.parse ct with
      | .error e => .error e
      | .ok c =>
        match getAttr a (lit "word"), getAttr a (lit "pos"), getAttr a (lit "entity"), getAttr a (lit "lemma"),
              getAttr a (lit "chunk") with
        | .ok w, .ok p, .ok en, .ok le, .ok ch =>
          let tok : Token := [(lit "word", w), (lit "pos", p), (lit "entity", en), (lit "lemma", le), (lit "chunk", ch)]
          .ok (Tree.mkTerminal tok c, [tok])
        | .error e, _, _, _, _ => .error e
        | _, .error e, _, _, _ => .error e
        | _, _, .error e, _, _ => .error e
        | _, _, _, .error e, _ => .error e
        | _, _, _, _, .error e => .error e
  | .rule1 a ch =>
    match getAttr a (lit "cat") with
    | .error e => .error e
    | .ok ct =>
      match Cat.parse ct with
      | .error e => .error e
      | .ok c =>
        match readXTree lang ch with
        | .error e => .error e
        | .ok (t, toks) =>
          .ok (.un c ((Dict.get? a (lit "type")).getD (lit "lex")) (lit "<un>") t, toks)
  | .rule2 a l r =>
    match getAttr a (lit "cat") with
    | .error e => .error e
    | .ok ct =>
      match Cat.parse ct with
      | .error e => .error e
      | .ok c =>
        match readXTree lang l with
        | .error e => .error e
        | .ok (tl, k1) =>
          match readXTree lang r with
          | .error e => .error e
          | .ok (tr, k2) =>
            match guess lang c tl.cat tr.cat with
            | .error e => .error e
            | .ok rule => .ok (.bin c rule.opString rule.opSymbol rule.headLeft tl tr, k1 ++ k2)

/-! ### Jigg XML -/

/-- `_cat_multi_valued(cat)` -/
def catMultiRec : Cat → Str
  | .atom b (.un none) => b
  | .atom b (.un (some v)) => b ++ cLBr :: v ++ lit "=true]"
  | .atom b f => (Cat.atom b f).str
  | .fn l s r =>
    let wrap (x : Cat) (t : Str) : Str := if x.isFunctor then cLPar :: t ++ [cRPar] else t
    wrap l (catMultiRec l) ++ s :: wrap r (catMultiRec r)

def catMulti (c : Cat) : Str := catMultiRec c

structure JCcg where
  attrs : Attrs
  spans : List Attrs
  deriving Repr

structure JSentence where
  tokens : List Attrs
  ccgs : List JCcg
  deriving Repr

/-- the converter's state: next span number of the sentence -/
structure SpanSt where
  next : Nat
  spans : List Attrs      -- in creation order (document order)
  counter : Nat           -- leaf counter of the current tree

def spanId (sid n : Nat) : Str := lit "s" ++ Str.ofNat sid ++ lit "_sp" ++ Str.ofNat n

/-- `traverse(node)` : returns (id, start) and the updated state; the span element is created on
    entry (so document order is pre-order) and its remaining attributes are set afterwards -/
def jiggTraverse (sid : Nat) (useSymbol : Bool) : Tree → SpanSt → (Str × Nat) × SpanSt
  | .leaf c _ _ _, st =>
    let id := spanId sid st.next
    let start := st.counter
    let a : Attrs := [(lit "category", catMulti c), (lit "id", id),
                      (lit "terminal", lit "s" ++ Str.ofNat sid ++ lit "_" ++ Str.ofNat start),
                      (lit "begin", Str.ofNat start), (lit "end", Str.ofNat (start + 1))]
    ((id, start), { next := st.next + 1, spans := st.spans ++ [a], counter := st.counter + 1 })
  | .un c s y ch, st =>
    let id := spanId sid st.next
    let pos := st.spans.length
    let st0 : SpanSt := { st with next := st.next + 1, spans := st.spans ++ [[]] }
    let ((cid, start), st1) := jiggTraverse sid useSymbol ch st0
    let a : Attrs := [(lit "category", catMulti c), (lit "id", id), (lit "child", cid),
                      (lit "rule", if useSymbol then y else s),
                      (lit "begin", Str.ofNat start), (lit "end", Str.ofNat (start + ch.numLeaves))]
    ((id, start), { st1 with spans := st1.spans.set pos a })
  | .bin c s y _ l r, st =>
    let id := spanId sid st.next
    let pos := st.spans.length
    let st0 : SpanSt := { st with next := st.next + 1, spans := st.spans ++ [[]] }
    let ((lid, start), st1) := jiggTraverse sid useSymbol l st0
    let ((rid, _), st2) := jiggTraverse sid useSymbol r st1
    let a : Attrs := [(lit "category", catMulti c), (lit "id", id), (lit "child", lid ++ cSpace :: rid),
                      (lit "rule", if useSymbol then y else s),
                      (lit "begin", Str.ofNat start), (lit "end", Str.ofNat (start + (l.numLeaves + r.numLeaves)))]
    ((id, start), { st2 with spans := st2.spans.set pos a })

/-- `converter.process(tree, score)` (the `score` attribute is not modelled: float formatting) -/
def jiggProcess (sid processed : Nat) (useSymbol : Bool) (t : Tree) (next : Nat) : JCcg × Nat :=
  let ((id, _), st) := jiggTraverse sid useSymbol t { next := next, spans := [], counter := 0 }
  let spans := match st.spans with
    | [] => []
    | first :: rest => setAttr first (lit "root") (lit "true") :: rest
  ({ attrs := [(lit "id", lit "s" ++ Str.ofNat sid ++ lit "_ccg" ++ Str.ofNat processed), (lit "root", id)],
     spans := spans }, st.next)

def jiggTrees (sid : Nat) (useSymbol : Bool) : List Tree → Nat → Nat → List JCcg
  | [], _, _ => []
  | t :: ts, processed, next =>
    let (c, next') := jiggProcess sid processed useSymbol t next
    c :: jiggTrees sid useSymbol ts (processed + 1) next'

/-- the attributes of one `<token>` : start, cat, id, then the token's items with `word → surf`
    and `lemma → base` (renamed at the end of the dict, as `token['surf'] = token.pop('word')` does) -/
def renameKey (t : Token) (old new : Str) : Token :=
  match Dict.get? t old with
  | some v => Dict.set (t.filter fun kv => kv.1 != old) new v
  | none => t

def jiggToken (sid idx : Nat) (c : Cat) (tok : Token) : Attrs :=
  let tok' := renameKey (renameKey tok (lit "word") (lit "surf")) (lit "lemma") (lit "base")
  tok'.foldl (fun acc kv => setAttr acc kv.1 kv.2)
    [(lit "start", Str.ofNat idx), (lit "cat", c.str), (lit "id", lit "s" ++ Str.ofNat sid ++ lit "_" ++ Str.ofNat idx)]

def leafCats : Tree → List Cat
  | .leaf c _ _ _ => [c]
  | .un _ _ _ ch => leafCats ch
  | .bin _ _ _ _ l r => leafCats l ++ leafCats r

/-- `to_jigg_xml(trees, use_symbol)` : sentences numbered from 0; tokens from the first tree -/
def jiggOfAux (useSymbol : Bool) : List (List Tree) → Nat → Except Err (List JSentence)
  | [], _ => .ok []
  | [] :: _, _ => .error .indexError                    -- parsed[0] on an empty n-best list
  | (t :: ts) :: rest, sid =>
    match jiggOfAux useSymbol rest (sid + 1) with
    | .error e => .error e
    | .ok more =>
      let toks := (t.tokens.zip (leafCats t)).zipIdx.map fun ((tok, c), i) => jiggToken sid i c tok
      .ok ({ tokens := toks, ccgs := jiggTrees sid useSymbol (t :: ts) 0 0 } :: more)

def jiggOf (useSymbol : Bool) (batch : List (List Tree)) : Except Err (List JSentence) :=
  jiggOfAux useSymbol batch 0

/-! ### reading Jigg XML back -/

def findSpan (spans : List Attrs) (id : Str) : Option Attrs :=
  spans.find? fun a => Dict.get? a (lit "id") == some id

/-- `parse(tree, tokens)` of `read_jigg_xml` : fuel bounds the depth (spans form a finite list) -/
def readJiggSpan (lang : Lang) (spans : List Attrs) (tokens : List (Str × Token)) :
    Nat → Str → Except Err Tree
  | 0, _ => .error .unsupported
  | fuel + 1, id =>
    match findSpan spans id with
    | none => .error .keyError
    | some a =>
      match getAttr a (lit "category") with
      | .error e => .error e
      | .ok ct =>
        match Dict.get? a (lit "terminal") with
        | some term =>
          match Cat.parse ct with
          | .error e => .error e
          | .ok c =>
            match tokens.find? fun p => p.1 == term with
            | none => .error .keyError
            | some (_, tok) =>
              match Dict.get? tok (lit "word"), Dict.get? tok (lit "surf") with
              | some w, _ => .ok (Tree.mkTerminal [(lit "word", w)] c)
              | none, some w => .ok (Tree.mkTerminal [(lit "word", w)] c)
              | none, none => .error .runtime
        | none =>
          match Cat.parse ct with
          | .error e => .error e
          | .ok c =>
            match getAttr a (lit "child") with
            | .error e => .error e
            | .ok ch =>
              match splitOn cSpace ch with
              | [k] =>
                match readJiggSpan lang spans tokens fuel k with
                | .error e => .error e
                | .ok t => .ok (Tree.mkUnary c t)
              | [k1, k2] =>
                match readJiggSpan lang spans tokens fuel k1 with
                | .error e => .error e
                | .ok tl =>
                  match readJiggSpan lang spans tokens fuel k2 with
                  | .error e => .error e
                  | .ok tr =>
                    match guess lang c tl.cat tr.cat with
                    | .error e => .error e
                    | .ok rule => .ok (.bin c rule.opString rule.opSymbol rule.headLeft tl tr)
              | _ => .error .assertion

/-- the tokens of a sentence as the reader sees them: attributes minus `id`, `start`, `cat` -/
def readJiggTokens (toks : List Attrs) : Except Err (List (Str × Token)) :=
  match toks with
  | [] => .ok []
  | a :: rest =>
    match getAttr a (lit "id"), readJiggTokens rest with
    | .ok id, .ok more =>
      .ok ((id, a.filter fun kv => kv.1 != lit "id" && kv.1 != lit "start" && kv.1 != lit "cat") :: more)
    | .error e, _ => .error e
    | _, .error e => .error e

def readJiggSentence (lang : Lang) (s : JSentence) : Except Err (List (Tree × List Token)) :=
  match readJiggTokens s.tokens with
  | .error e => .error e
  | .ok toks =>
    let rec go : List JCcg → Except Err (List (Tree × List Token))
      | [] => .ok []
      | c :: cs =>
        match getAttr c.attrs (lit "root") with
        | .error e => .error e
        | .ok root =>
          match readJiggSpan lang c.spans toks (c.spans.length + 1) root, go cs with
          | .ok t, .ok more => .ok ((t, toks.map (·.2)) :: more)
          | .error e, _ => .error e
          | _, .error e => .error e
    go s.ccgs

/-! ### ccg2lambda: `build_ccg_tree` and `normalize_token` -/

/-- the nested element ccg2lambda builds from the flat spans -/
inductive Built where
  | node (attrs : Attrs) (kids : List Built)
  deriving Repr

/-- `build_ccg_tree(ccg_xml, root_id)` -/
def buildTree (spans : List Attrs) : Nat → Str → Except Err Built
  | 0, _ => .error .unsupported
  | fuel + 1, id =>
    match findSpan spans id with
    | none => .error .valueError
    | some a =>
      match Dict.get? a (lit "child") with
      | none => .ok (.node a [])
      | some ch =>
        let ids := (splitOn cSpace ch).filter fun s => !s.isEmpty
        let rec kids : List Str → Except Err (List Built)
          | [] => .ok []
          | k :: ks =>
            match buildTree spans fuel k, kids ks with
            | .ok b, .ok bs => .ok (b :: bs)
            | .error e, _ => .error e
            | _, .error e => .error e
        match kids ids with
        | .error e => .error e
        | .ok bs => .ok (.node a bs)

/-- `normalize_token(token)` -/
def normalizeToken (t : Str) : Str :=
  let s1 := replaceChar 46 (lit "_DOT") t
  let s2 := replaceChar cComma (lit "_COMMA") s1
  let s3 := replaceChar cLPar (lit "_LEFTB") s2
  let s4 := replaceChar cRPar (lit "_RIGHTB") s3
  let s5 := if s4 == lit "-" then lit "_HYPHEN" else s4
  let s6 := if s5 == lit "&" then lit "_AMPERSAND" else s5
  let s7 := replaceChar 33 (lit "_EXCLAMATION") s6
  let s8 := replaceChar 45 (lit "_dash_") s7
  if startsWith s8 (lit "_") then s8 else cUnderscore :: s8

end Xml
end Depccg
