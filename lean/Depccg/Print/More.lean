/-
  Models of the remaining printers: depccg/printer/my_json.py (as a tree of attribute lists),
  deriv.py (ASCII art, to the character), prolog.py (English and Japanese, to the character),
  and the record numbering of depccg/printer/__init__.py `to_string`.
-/
import Depccg.Print.Text

namespace Depccg
open Str

namespace Print

/-! ### json -/

/-- `json_of(tree)` : leaves are the token's items plus `cat`, internal nodes `type`, `cat`, `children` -/
inductive JTree where
  | leaf (fields : List (Str × Str))
  | node (type cat : Str) (kids : List JTree)
  deriving Repr

def jsonOf : Tree → JTree
  | .leaf c tok _ _ => .leaf (Dict.set tok (lit "cat") c.str)
  | .un c s _ ch => .node s c.str [jsonOf ch]
  | .bin c s _ _ l r => .node s c.str [jsonOf l, jsonOf r]

/-! ### deriv -/

def spaces (n : Nat) : Str := List.replicate n cSpace

/-- Python's `n * ' '` for a possibly negative `n` -/
def spacesI (n : Int) : Str := List.replicate n.toNat cSpace

/-- `str.rstrip()` on text whose only trailing whitespace is blanks -/
def rstripSp (s : Str) : Str := (s.reverse.dropWhile (· == cSpace)).reverse

/-- the two header lines: categories and words centred over columns -/
def derivHeader : List (Str × Str) → Str × Str
  | [] => ([], [])
  | (c, w) :: rest =>
    let nextlen := 2 + max w.length c.length
    let lc := (nextlen - c.length) / 2
    let rc := lc + (nextlen - c.length) % 2
    let lw := (nextlen - w.length) / 2
    let rw := lw + (nextlen - w.length) % 2
    let (cs, ws) := derivHeader rest
    (spaces lc ++ c ++ spaces rc ++ cs, spaces lw ++ w ++ spaces rw ++ ws)

/-- `rec(lwidth, node)` : returns the right edge and the rule lines printed (each with its newline) -/
def derivRec : Tree → Nat → Except Err (Nat × Str)
  | .leaf c tok _ _, lw =>
    match Token.get tok (lit "word") with
    | .error e => .error e
    | .ok w => .ok (max lw (max (2 + lw + c.str.length) (2 + lw + w.length)), [])
  | .un c _ y ch, lw =>
    match derivRec ch lw with
    | .error e => .error e
    | .ok (r, out) =>
      let rw := max lw r
      let pad : Int := ((rw : Int) - lw - c.str.length) / 2 + lw
      .ok (rw, out ++ spaces lw ++ List.replicate (rw - lw) 45 ++ y ++ [10] ++ spacesI pad ++ c.str ++ [10])
  | .bin c _ y _ l r, lw =>
    match derivRec l lw with
    | .error e => .error e
    | .ok (r1, out1) =>
      let rw1 := max lw r1
      match derivRec r rw1 with
      | .error e => .error e
      | .ok (r2, out2) =>
        let rw := max rw1 r2
        let pad : Int := ((rw : Int) - lw - c.str.length) / 2 + lw
        .ok (rw, out1 ++ out2 ++ spaces lw ++ List.replicate (rw - lw) 45 ++ y ++ [10] ++ spacesI pad ++ c.str ++ [10])

def leafCatsWords : Tree → Except Err (List (Str × Str))
  | .leaf c tok _ _ =>
    match Token.get tok (lit "word") with
    | .error e => .error e
    | .ok w => .ok [(c.str, w)]
  | .un _ _ _ ch => leafCatsWords ch
  | .bin _ _ _ _ l r =>
    match leafCatsWords l, leafCatsWords r with
    | .ok a, .ok b => .ok (a ++ b)
    | .error e, _ => .error e
    | _, .error e => .error e

/-- `deriv_of(tree)` -/
def derivOf (t : Tree) : Except Err Str :=
  match leafCatsWords t with
  | .error e => .error e
  | .ok cw =>
    let (cs, ws) := derivHeader cw
    match derivRec t 0 with
    | .error e => .error e
    | .ok (_, lines) => .ok (rstripSp cs ++ [10] ++ rstripSp ws ++ [10] ++ lines)

/-! ### prolog (English) -/

def lowerAscii (s : Str) : Str := s.map fun c => if 65 ≤ c ∧ c ≤ 90 then c + 32 else c

/-- `_prolog_category_string(cat)` -/
def prologCat : Cat → Str
  | .atom b f =>
    let base := lowerAscii b
    if base == lit "." then lit "period"
    else if base == lit "," then lit "comma"
    else if base == lit ":" then lit "colon"
    else if base == lit ";" then lit "semicolon"
    else if f.str.isEmpty then base
    else base ++ 58 :: f.str
  | .fn l s r => cLPar :: prologCat l ++ s :: prologCat r ++ [cRPar]

/-- `_escape_prolog` -/
def escProlog (s : Str) : Str := replaceChar 39 (lit "\\'") s

/-- `_op_mapping` (as shipped; the generated table `Generated.Labels.opMapping` is checked
    against it on every run) -/
def opMapping : List (Str × Str) :=
  [(lit "fa", lit "fa("), (lit "ba", lit "ba("), (lit "fx", lit "fc("), (lit "fc", lit "fc("), (lit "bx", lit "bxc("),
   (lit "gfc", lit "gfc("), (lit "gbx", lit "gbx("), (lit "rp", lit "rp("), (lit "lp", lit "lx("),
   (lit "conj", lit "conj("), (lit "conj2", lit "conj(")]

def catLeft : Cat → Except Err Cat
  | .fn l _ _ => .ok l
  | .atom .. => .error .attributeError

def q (s : Str) : Str := 39 :: s ++ [39]

/-- `rec(node, output)` of `_prolog_string` at a given depth -/
def prologEnRec : Tree → Nat → Except Err Str
  | .leaf c tok _ _, depth =>
    match Token.get tok (lit "word") with
    | .error e => .error e
    | .ok w =>
      let g (k : String) := Token.getD tok (lit k) (lit "XX")
      .ok (spaces depth ++ lit "t(" ++ prologCat c ++ lit ", " ++ q (escProlog w) ++ lit ", " ++ q (escProlog (g "lemma"))
           ++ lit ", " ++ q (g "pos") ++ lit ", " ++ q (g "chunk") ++ lit ", " ++ q (g "entity") ++ lit ")")
  | .un c _ _ ch, depth =>
    match prologEnRec ch (depth + 1) with
    | .error e => .error e
    | .ok s => .ok (spaces depth ++ lit "lx(" ++ prologCat c ++ lit ", " ++ prologCat ch.cat ++ lit ",\n" ++ s ++ lit ")")
  | .bin c os _ _ l r, depth =>
    match Dict.get? opMapping os with
    | none => .error .keyError
    | some head =>
      let pre := spaces depth ++ head ++ prologCat c ++ lit ","
      -- the three label-specific insertions, in the order of the code
      let conj2 := os == lit "conj2"
      let conj := os == lit "conj"
      let lp := os == lit "lp"
      let rc := prologCat r.cat
      let d1 := if conj2 then depth + 1 else depth
      let part2 : Str := if conj2 then
          lit " " ++ rc ++ lit "\\" ++ rc ++ lit ",\n" ++ spaces d1 ++ lit "conj(" ++ rc ++ lit "\\" ++ rc ++ lit ", " ++ rc ++ lit ","
        else []
      match (if conj then (catLeft c).map fun cl => lit " " ++ prologCat cl ++ lit "," else .ok []) with
      | .error e => .error e
      | .ok part3 =>
        let d2 := if lp then d1 + 1 else d1
        let part4 : Str := if lp then lit " " ++ rc ++ lit ",\n" ++ spaces d2 ++ lit "lp(" ++ rc ++ lit "," else []
        match prologEnRec l (d2 + 1) with
        | .error e => .error e
        | .ok sl =>
          match prologEnRec r (d2 + 1) with
          | .error e => .error e
          | .ok sr =>
            .ok (pre ++ part2 ++ part3 ++ part4 ++ lit "\n" ++ sl ++ lit ",\n" ++ sr ++ lit ")"
                 ++ (if conj2 || lp then lit ")" else []))

def prologHeader : Str :=
  lit ":- op(601, xfx, (/)).\n:- op(601, xfx, (\\)).\n:- multifile ccg/2, id/2.\n:- discontiguous ccg/2, id/2.\n"

/-- `_prolog_string(tree, sentence_index)` -/
def prologEnOne (t : Tree) (idx : Nat) : Except Err Str :=
  match prologEnRec t 1 with
  | .error e => .error e
  | .ok s => .ok (lit "ccg(" ++ Str.ofNat idx ++ lit ",\n" ++ s ++ lit ").\n")

/-- all records of a batch, numbered by sentence (from 1) -/
def numbered {α : Type} (batch : List (List α)) : List (Nat × α) :=
  (batch.zipIdx.map fun (trees, i) => trees.map fun t => (i + 1, t)).flatten

def catExcept {α : Type} (f : α → Except Err Str) : List α → Except Err Str
  | [] => .ok []
  | x :: xs =>
    match f x with
    | .error e => .error e
    | .ok s =>
      match catExcept f xs with
      | .error e => .error e
      | .ok r => .ok (s ++ r)

/-- `to_prolog_en(nbest_trees)` -/
def prologEn (batch : List (List Tree)) : Except Err Str :=
  match catExcept (fun (p : Nat × Tree) => (prologEnOne p.2 p.1).map (· ++ [10])) (numbered batch) with
  | .error e => .error e
  | .ok body => .ok (prologHeader ++ [10] ++ body)

/-! ### prolog (Japanese) -/

def jaCombinatorTable : List (Str × Str) :=
  [(lit "SSEQ", lit "sseq"), (lit ">", lit "fa"), (lit "<", lit "ba"), (lit ">B", lit "fc"), (lit "<B1", lit "bc1"),
   (lit "<B2", lit "bc2"), (lit "<B3", lit "bc3"), (lit "<B4", lit "bc4"), (lit ">Bx1", lit "fx1"), (lit ">Bx2", lit "fx2"),
   (lit ">Bx3", lit "fx3"), (lit "ADNext", lit "adnext"), (lit "ADNint", lit "adnint"), (lit "ADV0", lit "adv0"),
   (lit "ADV1", lit "adv1"), (lit "ADV2", lit "adv2"), (lit "OTHER", lit "other")]

/-- `traverse_cat` -/
def prologJaCat : Cat → Str
  | .fn l s r => cLPar :: prologJaCat l ++ s :: prologJaCat r ++ [cRPar]
  | .atom b f =>
    let base := lowerAscii b
    match f with
    | .tri k1 v1 k2 v2 k3 v3 =>
      -- dict(feature.items())["case"] : the last pair with that key wins
      let case? := if k3 == lit "case" then some v3 else if k2 == lit "case" then some v2
                   else if k1 == lit "case" then some v1 else none
      match case? with
      | some v => base ++ 58 :: lowerAscii v
      | none => base
    | .un _ => base

/-- `traverse_tree(node, depth)` -/
def prologJaRec : Tree → Nat → Except Err Str
  | .leaf c tok _ _, depth =>
    match Token.get tok (lit "word") with
    | .error e => .error e                         -- `node.word` is evaluated eagerly
    | .ok w =>
      let surf := escProlog (Token.getD tok (lit "surf") w)
      let base := escProlog (Token.getD tok (lit "base") (lit "*"))
      let tags := ["pos", "pos1", "pos2", "pos3"].map fun k => Token.getD tok (lit k) (lit "*")
      let pos := if tags.all (· == lit "*") then lit "*" else joinSep cSlash (tags.map escProlog)
      let f := escProlog (Token.getD tok (lit "inflectionForm") (lit "*"))
      let ty := escProlog (Token.getD tok (lit "inflectionType") (lit "*"))
      .ok ([10] ++ spaces depth ++ lit "t(" ++ prologJaCat c ++ lit ", " ++ q surf ++ lit ", " ++ q base ++ lit ", " ++ q pos
           ++ lit ", " ++ q f ++ lit ", " ++ q ty ++ lit ")")
  | .un c _ y ch, depth =>
    match Dict.get? jaCombinatorTable y with
    | none => .error .keyError
    | some rule =>
      match prologJaRec ch (depth + 1) with
      | .error e => .error e
      | .ok s => .ok ([10] ++ spaces depth ++ rule ++ lit "(" ++ prologJaCat c ++ lit "," ++ s ++ lit ")")
  | .bin c _ y _ l r, depth =>
    match Dict.get? jaCombinatorTable y with
    | none => .error .keyError
    | some rule =>
      match prologJaRec l (depth + 1) with
      | .error e => .error e
      | .ok sl =>
        match prologJaRec r (depth + 1) with
        | .error e => .error e
        | .ok sr => .ok ([10] ++ spaces depth ++ rule ++ lit "(" ++ prologJaCat c ++ lit "," ++ sl ++ lit "," ++ sr ++ lit ")")

/-- `to_prolog_ja(nbest_trees)` -/
def prologJa (batch : List (List Tree)) : Except Err Str :=
  match catExcept (fun (p : Nat × Tree) =>
      (prologJaRec p.2 1).map fun s => lit "ccg(" ++ Str.ofNat p.1 ++ lit "," ++ s ++ lit ").\n\n") (numbered batch) with
  | .error e => .error e
  | .ok body => .ok (prologHeader ++ [10] ++ body)

/-! ### `to_string` : record numbering for the line formats -/

/-- the header line; the score text (`{:.8f}`) is a parameter (float formatting is not modelled) -/
def header (conll : Bool) (idx : Nat) (score : Str) : Str :=
  if conll then lit "# ID=" ++ Str.ofNat idx ++ lit "\n# log probability=" ++ score
  else lit "ID=" ++ Str.ofNat idx ++ lit ", log probability=" ++ score

/-- `to_string(nbest_trees, format)` for the formats printed record by record -/
def toStringLines (fmt : Tree → Except Err Str) (conll : Bool) (batch : List (List (Tree × Str))) : Except Err Str :=
  catExcept (fun (p : Nat × (Tree × Str)) =>
      (fmt p.2.1).map fun s => header conll p.1 p.2.2 ++ [10] ++ s ++ [10]) (numbered batch)

end Print
end Depccg

namespace Depccg
open Str
namespace Print

/-! ### html: the category segments of `_mathml_cat` -/

def isBracket (c : Nat) : Bool := c == cLBr || c == cRBr

/-- one `\[.+?\]` group at the head of the string: `[`, at least one character, then lazily up
    to the first `]` -/
def bracketGroup : Str → Option (Str × Str)
  | c :: d :: rest =>
    if c == cLBr && d != 10 then
      match findChar cRBr rest with
      | some k => if (rest.take k).all (· != 10) then some (c :: d :: rest.take (k + 1), rest.drop (k + 1)) else none
      | none => none
    else none
  | _ => none

/-- `(\[.+?\])*` : consume consecutive groups, the last one is the captured one -/
def bracketGroups : Nat → Str → Str → Str × Str
  | 0, last, s => (last, s)
  | fuel + 1, last, s =>
    match bracketGroup s with
    | some (g, rest) => bracketGroups fuel g rest
    | none => (last, s)

/-- `re.findall(r'([^\[\]]+)(\[.+?\])*', cat)` : (category part, last feature group) pairs -/
def mathmlSegments : Nat → Str → List (Str × Str)
  | 0, _ => []
  | _, [] => []
  | fuel + 1, c :: cs =>
    if isBracket c then mathmlSegments fuel cs        -- no match can start here: skip the character
    else
      let run := (c :: cs).takeWhile (fun x => !isBracket x)
      let rest := (c :: cs).dropWhile (fun x => !isBracket x)
      let (feat, rest') := bracketGroups rest.length [] rest
      (run, feat) :: mathmlSegments fuel rest'

def mathmlCat (s : Str) : List (Str × Str) := mathmlSegments (s.length + 1) s

end Print
end Depccg
