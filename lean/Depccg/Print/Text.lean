/-
  Models, to the character, of the line-oriented printers:
  depccg/printer/auto.py (auto, auto_extended), conll.py, ptb.py, ja.py and utils.(de)normalize.
-/
import Depccg.Tree

namespace Depccg
open Str

namespace Print

/-- `utils.denormalize(word)` -/
def denormalize (w : Str) : Str :=
  if w == lit "(" then lit "-LRB-"
  else if w == lit ")" then lit "-RRB-"
  else if w == lit "{" then lit "-LCB-"
  else if w == lit "}" then lit "-RCB-"
  else if w == lit "[" then lit "-LSB-"
  else if w == lit "]" then lit "-RSB-"
  else replaceChar cLt (lit "-LAB-") (replaceChar cGt (lit "-RAB-") w)

/-- `utils.normalize(word)` -/
def normalize (w : Str) : Str :=
  if w == lit "-LRB-" then lit "("
  else if w == lit "-RRB-" then lit ")"
  else if w == lit "-LCB-" then lit "{"
  else if w == lit "-RCB-" then lit "}"
  else if w == lit "-LSB-" then lit "["
  else if w == lit "-RSB-" then lit "]"
  else w

def sp (parts : List Str) : Str := joinSep cSpace parts

/-- `auto_of(tree)` -/
def autoOf : Tree → Except Err Str
  | .leaf c tok _ _ =>
    match Token.get tok (lit "word") with
    | .error e => .error e
    | .ok w =>
      let pos := Token.getD tok (lit "pos") (lit "POS")
      .ok (sp [lit "(<L", c.str, pos, pos, denormalize w, c.str ++ lit ">)"])
  | .un c _ _ ch =>
    match autoOf ch with
    | .error e => .error e
    | .ok s => .ok (sp [lit "(<T", c.str, lit "0", lit "1>", s, lit ")"])
  | .bin c _ _ h l r =>
    match autoOf l, autoOf r with
    | .ok a, .ok b => .ok (sp [lit "(<T", c.str, (if h then lit "0" else lit "1"), lit "2>", a, b, lit ")"])
    | .error e, _ => .error e
    | _, .error e => .error e

/-- `auto_extended_of(tree)` -/
def autoExtOf : Tree → Except Err Str
  | .leaf c tok _ _ =>
    match Token.get tok (lit "word") with
    | .error e => .error e
    | .ok w =>
      let g (k : String) := Token.getD tok (lit k) (lit "XX")
      .ok (sp [lit "(<L", c.str, denormalize w, g "lemma", g "pos", g "entity", g "chunk", c.str ++ lit ">)"])
  | .un c s _ ch =>
    match autoExtOf ch with
    | .error e => .error e
    | .ok t => .ok (sp [lit "(<T", c.str, s, lit "0", lit "1>", t, lit ")"])
  | .bin c s _ h l r =>
    match autoExtOf l, autoExtOf r with
    | .ok a, .ok b => .ok (sp [lit "(<T", c.str, s, (if h then lit "0" else lit "1"), lit "2>", a, b, lit ")"])
    | .error e, _ => .error e
    | _, .error e => .error e

/-- `ptb_of(tree)` (words printed with `denormalize`, after the `fix:` for bracket tokens) -/
def ptbRec : Tree → Except Err Str
  | .leaf c tok _ _ =>
    match Token.get tok (lit "word") with
    | .error e => .error e
    | .ok w => .ok (cLPar :: c.str ++ cSpace :: denormalize w ++ [cRPar])
  | .un c _ _ ch =>
    match ptbRec ch with
    | .error e => .error e
    | .ok s => .ok (cLPar :: c.str ++ cSpace :: s ++ [cRPar])
  | .bin c _ _ _ l r =>
    match ptbRec l, ptbRec r with
    | .ok a, .ok b => .ok (cLPar :: c.str ++ cSpace :: a ++ cSpace :: b ++ [cRPar])
    | .error e, _ => .error e
    | _, .error e => .error e

def ptbOf (t : Tree) : Except Err Str :=
  match ptbRec t with
  | .error e => .error e
  | .ok s => .ok (lit "(ROOT " ++ s ++ [cRPar])

/-- the `pos` / inflection field of `ja_of`: present attributes that are not `*`, joined by `-` -/
def jaField (tok : Token) (keys : List String) : Str :=
  let vs := (keys.map fun k => Token.getD tok (lit k) (lit "*")).filter fun v => v != lit "*"
  if vs.isEmpty then lit "_" else joinSep 45 vs

/-- `ja_of(tree)` -/
def jaOf : Tree → Except Err Str
  | .leaf c tok _ _ =>
    match Token.get tok (lit "word") with
    | .error e => .error e
    | .ok w0 =>
      let w := normalize w0
      let pos := jaField tok ["pos", "pos1", "pos2", "pos3"]
      let infl := jaField tok ["inflectionForm", "inflectionType"]
      .ok (cLBrace :: c.str ++ cSpace :: w ++ cSlash :: w ++ cSlash :: pos ++ cSlash :: infl ++ [cRBrace])
  | .un c _ y ch =>
    match jaOf ch with
    | .error e => .error e
    | .ok s => .ok (cLBrace :: y ++ cSpace :: c.str ++ cSpace :: s ++ [cRBrace])
  | .bin c _ y _ l r =>
    match jaOf l, jaOf r with
    | .ok a, .ok b => .ok (cLBrace :: y ++ cSpace :: c.str ++ cSpace :: a ++ cSpace :: b ++ [cRBrace])
    | .error e, _ => .error e
    | _, .error e => .error e

/-! ### conll -/

/-- `_resolve_dependencies`: for every word the index of its head word, `none` for the root
    (Python's -1); returns the head of the subtree -/
def resolveDeps : Tree → List (Option Nat) → Nat × List (Option Nat)
  | .leaf .., res => (res.length, res ++ [none])
  | .un _ _ _ ch, res => resolveDeps ch res
  | .bin _ _ _ h l r, res =>
    let (lh, res1) := resolveDeps l res
    let (rh, res2) := resolveDeps r res1
    if h then (lh, res2.set rh (some lh)) else (rh, res2.set lh (some rh))

def tab (parts : List Str) : Str := joinSep 9 parts

structure ConllSt where
  stack : List Str          -- pending `(<T …>` openers, oldest first
  counter : Nat
  deriving Repr

/-- `rec` of `conll_of`: returns the text of the subtree's lines (joined by newlines) -/
def conllRec (deps : List (Option Nat)) : Tree → ConllSt → Except Err (Str × ConllSt)
  | .leaf c tok _ _, st =>
    match Token.get tok (lit "word") with
    | .error e => .error e
    | .ok w0 =>
      let w := denormalize w0
      let lemma := Token.getD tok (lit "lemma") (lit "_")
      let pos := Token.getD tok (lit "pos") (lit "_")
      let frag := sp [lit "(<L", c.str, pos, pos, w, c.str ++ lit ">)"]
      let subtree := sp (st.stack ++ [frag])
      match deps[st.counter - 1]? with
      | none => .error .indexError
      | some d =>
        let dep := match d with | some h => h + 1 | none => 0
        .ok (tab [Str.ofNat st.counter, w, lemma, pos, pos, lit "_", Str.ofNat dep, c.str, lit "_", subtree],
             { stack := [], counter := st.counter + 1 })
  | .un c _ _ ch, st =>
    let st1 := { st with stack := st.stack ++ [sp [lit "(<T", c.str, lit "0", lit "1>"]] }
    match conllRec deps ch st1 with
    | .error e => .error e
    | .ok (s, st2) => .ok (s ++ lit " )", st2)
  | .bin c _ _ h l r, st =>
    let st1 := { st with stack := st.stack ++ [sp [lit "(<T", c.str, (if h then lit "0" else lit "1"), lit "2>"]] }
    match conllRec deps l st1 with
    | .error e => .error e
    | .ok (a, st2) =>
      match conllRec deps r st2 with
      | .error e => .error e
      | .ok (b, st3) => .ok (a ++ 10 :: b ++ lit " )", st3)

/-- `conll_of(tree)`; the assertion "exactly one root" always holds for a tree -/
def conllOf (t : Tree) : Except Err Str :=
  let deps := (resolveDeps t []).2
  match conllRec deps t { stack := [], counter := 1 } with
  | .error e => .error e
  | .ok (s, _) => .ok s

end Print
end Depccg
