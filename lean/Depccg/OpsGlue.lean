/-
  Driver side of the glue correspondence: chunks / runbatch / typecheck / filter.
-/
import Depccg.Wire
import Depccg.Glue

namespace Depccg
namespace OpsGlue
open Wire Glue

def nats (ts : List String) : Option (List Nat) :=
  ts.foldr (fun t acc => match t.toNat?, acc with | some v, some l => some (v :: l) | _, _ => none) (some [])

def showChunks (cs : List (List Nat)) : String :=
  " | ".intercalate (cs.map fun c => " ".intercalate (c.map toString))

def chunksOp (ts : List String) : String :=
  match nats ts with
  | some [len, k] =>
    match chunks (List.range len) k with
    | .ok cs => "ok " ++ showChunks cs
    | .error e => "err " ++ e.name
  | _ => "bad-op"

def runBatchOp (ts : List String) : String :=
  match nats ts with
  | some [len, maxChunk, procs] =>
    match runBatch (fun i : Nat => i) (List.range len) maxChunk procs with
    | .ok r => "ok " ++ " ".intercalate (r.map toString)
    | .error e => "err " ++ e.name
  | _ => "bad-op"

def typeCheckOp (ts : List String) : String :=
  match nats ts with
  | some (numCats :: nDocs :: nScores :: rest) =>
    let rec go : List Nat → Option (List Shapes)
      | [] => some []
      | a :: b :: c :: d :: e :: more => (go more).map (⟨a, (b, c), (d, e)⟩ :: ·)
      | _ => none
    match go rest with
    | some sh => (match typeCheck numCats nDocs nScores sh with | .ok _ => "ok" | .error e => "err " ++ e.name)
    | none => "bad-op"
  | _ => "bad-op"

def pDictRow : P (Str × List Cat) := fun ts => do
  let (w, ts) ← pStr ts
  let (cs, ts) ← pList pCat ts
  pure ((w, cs), ts)

def pRow (t : Nat) : P (List Int) := fun ts =>
  let rec go : Nat → List String → List Int → Option (List Int × List String)
    | 0, ts, acc => some (acc.reverse, ts)
    | k + 1, ts, acc => do let (v, ts) ← pInt ts; go k ts (v :: acc)
  go t ts []

def pSentence (t : Nat) : P (List Str × List (List Int)) := fun ts => do
  let (ws, ts) ← pList pStr ts
  let (rows, ts) ← pList (pRow t) ts
  pure ((ws, rows), ts)

def filterOp (ts : List String) : String :=
  match (do
    let (cats, ts) ← pList pCat ts
    let (t, ts) ← pNat ts
    let (big, ts) ← pInt ts
    let (dict, ts) ← pList pDictRow ts
    let (doc, ts) ← pList (pSentence t) ts
    if ts.isEmpty then pure (applyFilters cats dict big t doc) else none) with
  | none => "bad-op"
  | some (.error e) => "err " ++ e.name
  | some (.ok out) =>
    "ok " ++ " ; ".intercalate (out.map fun rows => " | ".intercalate (rows.map fun r => " ".intercalate (r.map toString)))

def dispatch (op : String) (ts : List String) : Option String :=
  match op with
  | "chunks" => some (chunksOp ts)
  | "runbatch" => some (runBatchOp ts)
  | "typecheck" => some (typeCheckOp ts)
  | "filter" => some (filterOp ts)
  | _ => none

end OpsGlue
end Depccg
