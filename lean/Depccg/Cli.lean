/-
  The program as a whole (depccg/__main__.py `main`, after option parsing): input text and the
  supertagger's scores in, printed text out.

      lines of the input file  ->  tokens (`annotate_XX` / `Token.of_piped`)
      `--root-cats`            ->  `Category.parse` of the `|`-separated parts
      tagger categories        ->  `Category.parse`
      `depccg.parsing.run` with the options of the command line   (`Lazy.parsingRun`)
      `print_(results, format)`                                    (`Print.toStringLines` + newline)

  Only the neural supertagger is outside: its output (score matrices, category strings) is an
  argument. The category dictionary is not applied (`main` passes `args` in the position of
  `disable_category_dictionary`). Scores are `k/64`; `'{:.8f}'.format` of such a number is exact
  (at most six decimals), so the header text is computed, not assumed (`fmt8`).
-/
import Depccg.Lazy
import Depccg.Print.More
import Depccg.Print.Json
import Depccg.Print.Html
import Depccg.Print.XmlText

namespace Depccg
namespace Cli
open Str Search GlueRun Lazy Print

/-! ### `'{:.8f}'.format(k / 64)` -/

/-- decimal digits of `n`, left-padded with zeros to `w` digits -/
def padDigits (w n : Nat) : Str :=
  let d := Str.ofNat n
  List.replicate (w - d.length) 48 ++ d

/-- `k/64 = i + f/64` with `f < 64`; `f/64 = (f * 15625) / 10^6` exactly -/
def fmt8 (k : Int) : Str :=
  let a := k.natAbs
  (if k < 0 then [45] else []) ++ Str.ofNat (a / 64) ++ [46] ++ padDigits 6 ((a % 64) * 15625) ++ [48, 48]

/-! ### `'{:.5e}'.format(k / 64)` -/

/-- `|k|/64 = n / 10^6` with `n = |k| * 15625`; six significant digits of `n`, the rest rounded
    half-to-even on the exact value (CPython's correctly rounded conversion), and the decimal
    exponent with a sign and at least two digits -/
def fmt5e (k : Int) : Str :=
  let n := k.natAbs * 15625
  if n = 0 then lit "0.00000e+00"
  else
    let len := (Str.ofNat n).length
    let q0 := if len ≤ 6 then n * 10 ^ (6 - len) else n / 10 ^ (len - 6)
    let r := if len ≤ 6 then 0 else n % 10 ^ (len - 6)
    let p := 10 ^ (len - 6)
    let up := len > 6 ∧ (2 * r > p ∨ (2 * r = p ∧ q0 % 2 = 1))
    let q1 := if up then q0 + 1 else q0
    let carry := q1 = 1000000
    let q := if carry then 100000 else q1
    let e : Int := (len : Int) - 7 + (if carry then 1 else 0)
    let ds := Str.ofNat q
    let es := Str.ofNat e.natAbs
    (if k < 0 then [45] else []) ++ ds.take 1 ++ [46] ++ ds.drop 1 ++ [101] ++ (if e < 0 then [45] else [43])
      ++ (if es.length < 2 then [48] else []) ++ es

/-- the score text of the html header: `-inf` for the failure placeholder -/
def scoreText5e : Option Int → Str
  | some k => fmt5e k
  | none => lit "-inf"

/-- the score text of a result: `-inf` for the failure placeholder -/
def scoreText : Option Int → Str
  | some k => fmt8 k
  | none => lit "-inf"

/-! ### the input side -/

/-- `Token.of_piped(string)`: WORD|POS|NER, WORD|LEMMA|POS|NER or WORD|LEMMA|POS|NER|CHUNK -/
def ofPiped (s : Str) : Except Err Token :=
  let mk (w l p e c : Str) : Token :=
    [(lit "word", w), (lit "lemma", l), (lit "pos", p), (lit "entity", e), (lit "chunk", c)]
  match splitOn cBar s with
  | [w, l, p, e, c] => .ok (mk w l p e c)
  | [w, l, p, e] => .ok (mk w l p e (lit "XX"))
  | [w, p, e] => .ok (mk w (lit "XX") p e (lit "XX"))
  | _ => .error .assertion

def mapExcept {α β : Type} (f : α → Except Err β) : List α → Except Err (List β)
  | [] => .ok []
  | x :: xs =>
    match f x with
    | .error e => .error e
    | .ok y =>
      match mapExcept f xs with
      | .error e => .error e
      | .ok ys => .ok (y :: ys)

/-- one input line -> the tokens of a sentence (`sent.split(' ')`, then `of_piped` or `of_word`) -/
def tokensOfLine (piped : Bool) (line : Str) : Except Err (List Token) :=
  mapExcept (fun w => if piped then ofPiped w else .ok (Token.ofWord w)) (splitOn cSpace line)

/-- `--root-cats`: `[Category.parse(c) for c in args.root_cats.split('|')]` -/
def rootsOf (s : Str) : Except Err (List Cat) := mapExcept Cat.parse (splitOn cBar s)

/-! ### the output side -/

/-- the failure placeholder `Tree.make_terminal("FAILED", NP)`: a bare word becomes a token that
    has nothing but the word -/
def placeholder : Tree := Tree.mkTerminal [(lit "word", lit "FAILED")] (.atom (lit "NP") (.un none))

/-- what `run` returns for a sentence, as `to_string` sees it: (tree, score text) pairs -/
def scored (r : SentResult) : List (Tree × Str) :=
  match r with
  | .failed => [(placeholder, scoreText none)]
  | .parsed ts => ts.map fun (t, k) => (t, scoreText (some k))

inductive Fmt where
  | auto | autoExt | conll | ptb | deriv | ja
  | prologEn | prologJa          -- `--format prolog` under the English / Japanese program
  | json | html
  | xml | jiggEn | jiggJa        -- `--format jigg_xml` under the English / Japanese program (rule names / symbols)
  deriving DecidableEq, Repr

def Fmt.fn : Fmt → Tree → Except Err Str
  | .auto => autoOf | .autoExt => autoExtOf | .conll => conllOf | .ptb => ptbOf | .deriv => derivOf | .ja => jaOf
  | .prologEn => fun _ => .ok [] | .prologJa => fun _ => .ok []      -- (not record formats: see `printText`)
  | .json => fun _ => .ok [] | .html => fun _ => .ok []
  | .xml => fun _ => .ok [] | .jiggEn => fun _ => .ok [] | .jiggJa => fun _ => .ok []

/-- the trees of the results, for the formats that print no score -/
def treesOnly (results : List SentResult) : List (List Tree) :=
  results.map fun r => (scored r).map fun (p : Tree × Str) => p.1

/-- the trees with their scores as numbers, for `json` -/
def scoredK (r : SentResult) : List (Tree × Option Int) :=
  match r with
  | .failed => [(placeholder, none)]
  | .parsed ts => ts.map fun (t, k) => (t, some k)

def addNewline (r : Except Err Str) : Except Err Str :=
  match r with
  | .error e => .error e
  | .ok s => .ok (s ++ [10])

/-- `print_(results, format)`: the text of `to_string` and the newline `print` adds -/
def printText (f : Fmt) (results : List SentResult) : Except Err Str :=
  match f with
  | .prologEn => addNewline (prologEn (treesOnly results))
  | .prologJa => addNewline (prologJa (treesOnly results))
  | .json => .ok (jsonText (results.map scoredK) ++ [10])
  | .xml => addNewline (Xml.xmlText (treesOnly results))
  | .jiggEn => addNewline (Xml.jiggText false (results.map scoredK))
  | .jiggJa => addNewline (Xml.jiggText true (results.map scoredK))
  | .html => addNewline (toMathml (results.map fun r => (scoredK r).map fun (p : Tree × Option Int) => (p.1, some (scoreText5e p.2))))
  | f =>
    match toStringLines f.fn (f == Fmt.conll) (results.map scored) with
    | .error e => .error e
    | .ok s => .ok (s ++ [10])

/-! ### the whole program -/

structure Opts where
  cfg : Cfg                      -- --unary-penalty (in 1/64), --pruning-size, --nbest, --max-step
  maxLength : Nat                -- --max-length
  procs : Nat                    -- --num-processes
  rootCats : Str                 -- --root-cats
  piped : Bool                   -- --input-format POSandNERtagged
  format : Fmt                   -- --format

/-- per sentence: what the supertagger returned (and the beta test as the C++ evaluates it) -/
structure Scores where
  tags : List (List Int)
  deps : List (List Int)
  passes : List (List Bool)

def zipSents : List (List Token) → List Scores → List SentIn
  | toks :: ts, s :: ss => { tokens := toks, tags := s.tags, deps := s.deps, passes := s.passes } :: zipSents ts ss
  | _, _ => []

/-- `main(args)` on the non-empty, stripped lines of the input -/
def mainText (G : CatGrammar) (o : Opts) (lines : List Str) (tagCats : List Str) (scores : List Scores) :
    Except Err Str :=
  match rootsOf o.rootCats with
  | .error e => .error e
  | .ok roots =>
    match mapExcept (tokensOfLine o.piped) lines with
    | .error e => .error e
    | .ok doc =>
      match mapExcept Cat.parse tagCats with
      | .error e => .error e
      | .ok categories =>
        match parsingRun G categories roots o.cfg (some o.maxLength) 20 o.procs (zipSents doc scores) with
        | .error e => .error e
        | .ok rs =>
          match mapExcept (fun r => r) rs with
          | .error e => .error e
          | .ok results => printText o.format results

end Cli
end Depccg
