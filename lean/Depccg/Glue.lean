/-
  Model of depccg/parsing.py : `_chunks`, `_binarize`, `apply_category_filters`, the shape check
  `_type_check`, and the batch driver `run` as far as it is logic (chunk iff the batch is larger
  than `max_chunk_size`, concatenate the chunks' results in order).
-/
import Depccg.Cat

namespace Depccg
namespace Glue

/-! ### `_chunks` -/

/-- `math.ceil(len / max(num_chunks, 1))` -/
def splits (len k : Nat) : Nat := (len + (max k 1) - 1) / (max k 1)

/-- `for i in range(0, len, splits): yield l[i:i+splits]`; fuel = `len` (every slice is non-empty) -/
def chunksAux {α : Type} (sp : Nat) : Nat → List α → List (List α)
  | 0, _ => []
  | _ + 1, [] => []
  | fuel + 1, x :: xs => (x :: xs).take sp :: chunksAux sp fuel ((x :: xs).drop sp)

/-- `_chunks(list_, num_chunks)`; `range()` with step 0 raises ValueError on an empty list -/
def chunks {α : Type} (l : List α) (k : Nat) : Except Err (List (List α)) :=
  if l.isEmpty then .error .valueError else .ok (chunksAux (splits l.length k) l.length l)

/-! ### the batch driver -/

/-- `depccg.parsing.run` after the shape check: `solo` is the result of one sentence (by C11's
    history-independence the result of `_parsing.run` on a chunk is `map solo`) -/
def runBatch {σ ρ : Type} (solo : σ → ρ) (doc : List σ) (maxChunk procs : Nat) : Except Err (List ρ) :=
  if doc.length ≤ maxChunk then .ok (doc.map solo)
  else match chunks doc procs with
    | .error e => .error e
    | .ok cs => .ok (cs.map (·.map solo)).flatten

/-! ### `_type_check` -/

structure Shapes where
  tokens : Nat
  tag : Nat × Nat
  dep : Nat × Nat
  deriving DecidableEq, Repr

/-- the per-sentence loop of `_type_check`: every mismatch is a RuntimeError -/
def shapesOK (numCats : Nat) : List Shapes → Bool
  | [] => true
  | s :: rest =>
    numCats == s.tag.2 && s.tag == (s.tokens, numCats) && s.dep == (s.tokens, s.tokens + 1)
      && shapesOK numCats rest

def typeCheck (numCats nDocs nScores : Nat) (sents : List Shapes) : Except Err Unit :=
  if nDocs != nScores then .error .runtime
  else if shapesOK numCats sents then .ok () else .error .runtime

/-! ### `apply_category_filters` -/

/-- `{cat: index for index, cat in enumerate(categories)}[c]` : the last index wins -/
def catIndexAux (c : Cat) : Nat → List Cat → Option Nat → Option Nat
  | _, [], acc => acc
  | i, x :: xs, acc => catIndexAux c (i + 1) xs (if Cat.pyEq x c then some i else acc)

def catIndex (cats : List Cat) (c : Cat) : Option Nat := catIndexAux c 0 cats none

/-- `_binarize(indices, length)`: True everywhere except at the listed indices -/
def binarize (indices : List Nat) (length : Nat) : List Bool :=
  (List.range length).map fun i => !(indices.elem i)

/-- `[category_ids[cat] for cat in cats]` : KeyError for a category outside the list -/
def resolve (cats : List Cat) : List Cat → Except Err (List Nat)
  | [] => .ok []
  | c :: cs =>
    match catIndex cats c with
    | none => .error .keyError
    | some i =>
      match resolve cats cs with
      | .ok is => .ok (i :: is)
      | .error e => .error e

/-- the word -> mask dictionary (word keys unique, insertion order) -/
def buildMasks (cats : List Cat) (numTags : Nat) : List (Str × List Cat) → Except Err (List (Str × List Bool))
  | [] => .ok []
  | (w, cs) :: rest =>
    match resolve cats cs with
    | .error e => .error e
    | .ok is =>
      match buildMasks cats numTags rest with
      | .error e => .error e
      | .ok ms => .ok ((w, binarize is numTags) :: ms)

/-- `tag_scores[index, mask] = big` on one row -/
def maskRow (big : Int) : List Int → List Bool → List Int
  | [], _ => []
  | xs, [] => xs
  | x :: xs, m :: ms => (if m then big else x) :: maskRow big xs ms

def lookupMask (masks : List (Str × List Bool)) (w : Str) : Option (List Bool) :=
  match masks.find? fun p => p.1 == w with
  | some p => some p.2
  | none => none

/-- one sentence: rows beyond the tokens are untouched -/
def filterRows (masks : List (Str × List Bool)) (big : Int) : List Str → List (List Int) → List (List Int)
  | [], rows => rows
  | _, [] => []
  | w :: ws, row :: rows =>
    (match lookupMask masks w with
      | some m => maskRow big row m
      | none => row) :: filterRows masks big ws rows

/-- `apply_category_filters` on a document: (words, tag rows) per sentence; dependency scores are
    not an argument of the model: the code never touches them -/
def applyFilters (cats : List Cat) (dict : List (Str × List Cat)) (big : Int) (numTags : Nat)
    (doc : List (List Str × List (List Int))) : Except Err (List (List (List Int))) :=
  match buildMasks cats numTags dict with
  | .error e => .error e
  | .ok masks => .ok (doc.map fun sr => filterRows masks big sr.1 sr.2)

end Glue
end Depccg
