import Depccg.Str
import Depccg.Cat
import Depccg.Wire
import Depccg.Ops
